(* TracePreds.v — the properties about a composite sync as executable
   predicates.  "call" predicates speak about what may be sent (they are
   proved of the model for every answer function and evaluated on the calls
   the implementation made); "event" predicates also use the pre/post state
   the simulated API server recorded around each accepted request. *)
From MC Require Import Generated.
From MC Require Export Model.Composite.
Local Open Scope list_scope.

Definition kid_of_res (c : ccfg) (res : string) : option child_cfg :=
  find (fun kc => String.eqb (ch_res kc) res) (known c).

Definition targets_parent (c : ccfg) (parent : json) (q : req) : bool :=
  String.eqb (q_res q) (p_res c) && String.eqb (q_name q) (get_name parent) &&
  String.eqb (q_ns q) (eff_ns (p_namespaced c) (get_ns parent)).

Definition find_cached (c : ccfg) (k : cache) (q : req) : option json :=
  match kid_of_res c (q_res q) with
  | None => None
  | Some kc =>
      find (fun o => String.eqb (get_name o) (q_name q) &&
                     String.eqb (eff_ns (ch_namespaced kc) (get_ns o)) (q_ns q)) (cached k (q_res q))
  end.

Definition metadata_is_obj (o : json) : bool :=
  match jget "metadata" (obj_map o) with JObj _ => true | _ => false end.

Definition is_orphan (o : json) : bool := match controller_of o with None => true | Some _ => false end.

Definition has_controller_ref_of (o : json) (uid : string) : bool :=
  existsb (fun r => String.eqb (or_uid r) uid && match or_controller r with Some true => true | _ => false end)
          (get_owner_refs o).

(* ---- C02: what may be sent on behalf of a parent ---- *)
Definition C02_call_ok (c : ccfg) (k : cache) (parent : json) (cl : call) : bool :=
  match cl with
  | CHook _ _ => true
  | CApi q =>
      targets_parent c parent q ||
      match q_verb q with
      | VGet => true
      | VCreate => has_controller_ref_of (q_body q) (get_uid parent) || negb (metadata_is_obj (q_body q))
      | VDelete =>
          match find_cached c k q with
          | Some o => String.eqb (q_uid_pre q) (get_uid o) && String.eqb (q_prop q) "Background" &&
                      (controlled_by o (get_uid parent) || is_orphan o)
          | None => false
          end
      | VUpdate =>
          match find_cached c k q with
          | Some o => String.eqb (get_uid (q_body q)) (get_uid o) &&
                      (controlled_by o (get_uid parent) || is_orphan o)
          | None => false
          end
      (* server-side apply: the applied object carries our controller reference, so the API
         server refuses it on an object somebody else controls (one controller reference) *)
      | VPatchApply => has_controller_ref_of (q_body q) (get_uid parent) || negb (metadata_is_obj (q_body q))
      (* the last-applied annotation is taken off an observed child before it is applied *)
      | VPatchJson =>
          match find_cached c k q with
          | Some o => controlled_by o (get_uid parent) || is_orphan o
          | None => false
          end
      | _ => false
      end
  end.

(* ---- events as the simulator logged them ---- *)
Record ev := mkEv { e_call : call; e_ans : answer; e_pre : json; e_post : json }.

Definition accepted (e : ev) : bool := match e_ans e with AObj _ => true | _ => false end.
Definition effective (e : ev) : bool := accepted e && negb (jeqb (e_pre e) (e_post e)).

(* post differs from pre only by our controller reference (and the resourceVersion) *)
Definition strip_or_rv (o : json) : json :=
  match o with
  | JObj m => JObj (nested_remove (nested_remove m ["metadata"; "ownerReferences"]) ["metadata"; "resourceVersion"])
  | _ => o
  end.

Definition is_adoption_edit (puid : string) (pre post : json) : bool :=
  is_orphan pre && controlled_by post puid && jeqb (strip_or_rv pre) (strip_or_rv post) &&
  forallb (fun r => existsb (fun r' => String.eqb (or_uid r) (or_uid r')) (get_owner_refs post)) (get_owner_refs pre).

(* the object was ours at some point: in the cache, or after a write of this very sync (an adoption) *)
Definition was_ours (c : ccfg) (k : cache) (puid : string) (q : req) (evs : list ev) : bool :=
  match find_cached c k q with Some o => controlled_by o puid | None => false end ||
  existsb (fun e' => match e_call e' with
                     | CApi q' => String.eqb (q_res q') (q_res q) && String.eqb (q_ns q') (q_ns q) &&
                                  String.eqb (q_name q') (q_name q) && accepted e' && controlled_by (e_post e') puid
                     | _ => false end) evs.

Definition C02_event_ok (c : ccfg) (k : cache) (parent : json) (evs : list ev) (e : ev) : option string :=
  match e_call e with
  | CHook _ _ => None
  | CApi q =>
      if targets_parent c parent q then None else
      if negb (effective e) then None else
      let puid := get_uid parent in
      match q_verb q with
      | VGet => None
      | VCreate => if controlled_by (e_post e) puid then None else Some "created-without-controller-ref"
      | VDelete =>
          if String.eqb (q_uid_pre q) "" then Some "delete-without-uid-precondition" else
          if negb (String.eqb (q_uid_pre q) (get_uid (e_pre e))) then Some "delete-hit-other-incarnation" else
          if controlled_by (e_pre e) puid then None else
          (* the object was ours when the cache was taken (ownership edited since), or never was *)
          if was_ours c k puid q evs then Some "delete-target-not-controlled"
          else Some "delete-target-never-controlled"
      | VPatchApply =>
          if is_null (e_pre e)
          then (if controlled_by (e_post e) puid then None else Some "created-without-controller-ref")
          else if controlled_by (e_pre e) puid then None else Some "write-target-not-controlled"
      | _ =>
          if controlled_by (e_pre e) puid then None else
          if is_adoption_edit puid (e_pre e) (e_post e) then
            (* an orphan that does not match the parent's selector is never written, adoption included
               (judged on the labels the controller observed: its cache, as C04 does) *)
            let seen := match find_cached c k q with Some o => o | None => e_pre e end in
            match make_selector c parent with
            | Some sel => if sel_matches sel (get_labels seen) then None else Some "non-matching-orphan-written"
            | None => Some "non-matching-orphan-written"
            end else
          if was_ours c k puid q evs then Some "write-target-not-controlled"
          else Some "write-target-never-controlled"
      end
  end.

(* every delete, accepted or not, is conditioned on a UID and asks for background propagation *)
Definition delete_guarded (e : ev) : bool :=
  match e_call e with
  | CApi q => match q_verb q with
              | VDelete => negb (String.eqb (q_uid_pre q) "") &&
                           (String.eqb (q_prop q) "Background" ||
                            (* ControllerRevisions have no dependents: the typed client sends the UID precondition only *)
                            String.prefix "controllerrevisions." (q_res q))
              | _ => true end
  | _ => true
  end.


Definition C02_round (c : ccfg) (k : cache) (evs : list ev) : option string :=
  match k_parent k with
  | None => None
  | Some parent =>
      match first_some (C02_event_ok c k parent evs) evs with
      | Some s => Some s
      | None =>
          if negb (forallb delete_guarded evs) then Some "delete-unguarded" else
          (* the envelope is about children and the parent; ControllerRevision requests (rolling
             strategies) are judged by the event clauses and by the check's revision clauses *)
          if negb (forallb (fun e => match e_call e with
                                     | CApi q => String.prefix "controllerrevisions." (q_res q)
                                     | _ => false end || C02_call_ok c k parent (e_call e)) evs)
          then Some "call-outside-C02-envelope"
          else None
      end
  end.

(* ================= shared helpers over a round ================= *)
Definition is_api (e : ev) : option req := match e_call e with CApi q => Some q | _ => None end.

Definition hook_events (evs : list ev) : list ev :=
  filter (fun e => match e_call e with CHook HSync _ | CHook HFinalize _ => true | _ => false end) evs.

(* the decoded answer of the (first) hook call of the round, namespaces defaulted *)
Definition round_hook (evs : list ev) : option (hook_kind * json * hook_resp) :=
  match hook_events evs with
  | e :: _ =>
      match e_call e, e_ans e with
      | CHook hk body, AHook ans =>
          match decode_composite ans with
          | Some r =>
              let pns := get_ns (jget "parent" (obj_map body)) in
              Some (hk, body, mkHR (hr_status r)
                                   (map (default_ns pns) (filter (fun c => match c with Some _ => true | None => false end) (hr_children r)))
                                   (hr_resync r) (hr_finalized r))
          | None => None end
      | _, _ => None
      end
  | [] => None
  end.

Definition child_res_of (c : ccfg) (q : req) : option child_cfg :=
  if String.eqb (q_res q) (p_res c) then None
  else find (fun kc => String.eqb (ch_res kc) (q_res q)) (kids c).

Definition is_write (q : req) : bool := match q_verb q with VGet => false | _ => true end.

(* desired child for a request target *)
Definition desired_for (kc : child_cfg) (q : req) (ds : list (option json)) : option json :=
  match find (fun d => match d with
                       | Some o => String.eqb (get_api_version o) (ch_api_version kc) && String.eqb (get_kind o) (ch_kind kc) &&
                                   String.eqb (get_name o) (q_name q) &&
                                   String.eqb (eff_ns (ch_namespaced kc) (get_ns o)) (q_ns q)
                       | None => false end) ds with
  | Some (Some o) => Some o
  | _ => None
  end.

(* content, ignoring ownership and version bookkeeping *)
Definition content_changed (e : ev) : bool :=
  accepted e && negb (jeqb (strip_or_rv (e_pre e)) (strip_or_rv (e_post e))).

Fixpoint before_each {A} (P : list ev -> ev -> option A) (seen : list ev) (evs : list ev) : option A :=
  match evs with
  | [] => None
  | e :: evs' => match P seen e with Some a => Some a | None => before_each P (seen ++ [e]) evs' end
  end.

(* ================= C06: the update strategy decides the verb ================= *)
Definition method_allows_delete (m : string) : bool :=
  String.eqb m method_recreate || String.eqb m method_rolling_recreate.
Definition method_allows_update (m : string) : bool :=
  String.eqb m method_in_place || String.eqb m method_rolling_in_place.

Definition C06_event_ok (c : ccfg) (k : cache) (ds : list (option json)) (e : ev) : option string :=
  match is_api e with
  | None => None
  | Some q =>
      match child_res_of c q with
      | None => None
      | Some kc =>
          if negb (is_write q) then None else
          match find_cached c k q with
          | None => None                      (* creation of a missing child *)
          | Some old =>
              let m := method_of c (group_of (ch_api_version kc)) (ch_kind kc) in
              let des := desired_for kc q ds in
              match q_verb q with
              | VDelete =>
                  if negb (String.eqb (q_prop q) "Background") then Some "delete-not-background" else
                  if is_deleting old then Some "write-to-child-pending-deletion" else
                  match des with
                  | None => None                         (* undesired: deleted, whatever the strategy *)
                  | Some d =>
                      if negb (method_allows_delete m) then Some "desired-child-deleted-under-non-recreate-strategy" else
                      match apply_update (obj_map old) (obj_map d) with
                      | Ok n => if jeqb (JObj n) old then Some "matching-child-deleted" else None
                      | _ => None end
                  end
              | VUpdate =>
                  if negb (content_changed e) then None else   (* adoption / release edits *)
                  if is_deleting old then Some "write-to-child-pending-deletion" else
                  (* ... nor does a retry land on a child that has begun terminating since the cache was taken *)
                  if accepted e && is_deleting (e_pre e) then Some "write-to-child-pending-deletion" else
                  match des with
                  | None => Some "undesired-child-updated"
                  | Some d =>
                      if negb (method_allows_update m) then Some "child-updated-under-non-inplace-strategy" else
                      match apply_update (obj_map old) (obj_map d) with
                      | Ok n => if jeqb (JObj n) old then Some "matching-child-updated" else None
                      | _ => None end
                  end
              | _ => None
              end
          end
      end
  end.

(* did the sync reach the status phase (which follows child management)? *)
Definition after_hook (evs : list ev) : list ev :=
  (fix go (l : list ev) : list ev :=
     match l with
     | [] => []
     | e :: l' => match e_call e with CHook HSync _ | CHook HFinalize _ => l' | _ => go l' end
     end) evs.

Definition has_request (evs : list ev) (v : verb) (res ns name : string) : bool :=
  existsb (fun e => match is_api e with
                    | Some q => verb_eqb (q_verb q) v && String.eqb (q_res q) res && String.eqb (q_ns q) ns && String.eqb (q_name q) name
                    | None => false end) evs.

(* completeness of child management when the sync ran to its end *)
Definition C06_complete (c : ccfg) (k : cache) (parent : json) (observed : umap)
           (ds : list (option json)) (evs : list ev) : option string :=
  first_some (fun g => match g with (av, kd, os) =>
    match lookup_kind c av kd with
    | None => None
    | Some kc =>
        first_some (fun p =>
          let old := snd p in
          let ns := eff_ns (ch_namespaced kc) (get_ns old) in
          let q := mkRq VGet (ch_res kc) ns (get_name old) JNull "" "" in
          if is_deleting old then None else
          match desired_for kc q ds with
          | None => if has_request evs VDelete (ch_res kc) ns (get_name old) then None
                    else Some "undesired-owned-child-not-deleted"
          | Some d =>
              let m := method_of c (group_of (ch_api_version kc)) (ch_kind kc) in
              match apply_update (obj_map old) (obj_map d) with
              | Ok n =>
                  if jeqb (JObj n) old then None else
                  if method_allows_delete m then
                    if has_request evs VDelete (ch_res kc) ns (get_name old) then None else Some "differing-child-not-deleted-under-recreate"
                  else if method_allows_update m then
                    if has_request evs VUpdate (ch_res kc) ns (get_name old) then None else Some "differing-child-not-updated-under-inplace"
                  else None
              | _ => None end
          end) os
    end end) observed.

(* ================= C10: finalizer life cycle ================= *)
Definition parent_events (c : ccfg) (parent : json) (evs : list ev) : list ev :=
  filter (fun e => match is_api e with Some q => targets_parent c parent q | None => false end) evs.

Definition C10_round (c : ccfg) (k : cache) (parent : json) (evs : list ev) : option string :=
  let fin := finalizer_name c in
  before_each (fun seen e =>
    match e_call e with
    | CHook hk body =>
        match hk with
        | HCustomize => None
        | _ =>
            let p := jget "parent" (obj_map body) in
            let want_fin := has_finalize c && (is_deleting p || negb (sel_matches (p_selector c) (get_labels p))) in
            let flag := match jget "finalizing" (obj_map body) with JBool b => b | _ => false end in
            if negb (Bool.eqb want_fin (hook_kind_eqb hk HFinalize)) then Some "wrong-hook-chosen" else
            if negb (Bool.eqb flag want_fin) then Some "wrong-finalizing-flag" else None
        end
    | CApi q =>
        if targets_parent c parent q then
          match q_verb q with
          | VUpdate =>
              let adds := negb (has_finalizer (e_pre e) fin) && has_finalizer (q_body q) fin in
              let removes := accepted e && has_finalizer (e_pre e) fin && negb (has_finalizer (e_post e) fin) in
              if adds && is_deleting parent then Some "finalizer-added-to-deleting-parent" else
              if adds && accepted e && is_deleting (e_pre e) then Some "finalizer-accepted-on-deleting-parent" else
              if removes && has_finalize c &&
                 negb (existsb (fun e' => match e_ans e' with
                                          | AHook ans => match decode_composite ans with Some r => hr_finalized r | None => false end
                                          | _ => false end) (hook_events seen))
              then Some "finalizer-removed-without-finalized" else None
          | _ => None
          end
        else
          match child_res_of c q with
          | None => None
          | Some _ =>
              if negb (is_write q) then None else
              (* a parent pending deletion that has lost the finalizer in this very sync has no child touched any more *)
              if existsb (fun e' => match is_api e' with
                                    | Some q' => targets_parent c parent q' && verb_eqb (q_verb q') VUpdate && accepted e' &&
                                                 has_finalizer (e_pre e') fin && negb (has_finalizer (e_post e') fin) &&
                                                 is_deleting (e_pre e')
                                    | None => false end) seen
              then Some "child-touched-after-finalizer-removed-from-dying-parent" else
              (* ... or that a read of this sync has shown dying without the finalizer (an earlier sync took it off) *)
              if has_finalize c &&
                 existsb (fun e' => match is_api e', e_ans e' with
                                    | Some q', AObj o => targets_parent c parent q' && verb_eqb (q_verb q') VGet &&
                                                         String.eqb (get_uid o) (get_uid parent) &&
                                                         is_deleting o && negb (has_finalizer o fin)
                                    | _, _ => false end) seen
              then Some "child-touched-for-dying-parent-seen-without-finalizer" else
              match q_verb q with
              | VCreate =>
                  (* the finalizer is on the parent as cached, or as an earlier read or write of this sync returned it *)
                  if has_finalize c && negb (has_finalizer parent fin) &&
                     negb (existsb (fun e' => match is_api e', e_ans e' with
                                              | Some q', AObj o => targets_parent c parent q' && has_finalizer o fin
                                              | _, _ => false end) seen)
                  then Some "child-created-before-finalizer" else None
              | _ => None
              end
          end
    end) [] evs.

(* a dying parent without finalize duty has no child touched *)
Definition C10_handoff (c : ccfg) (evs : list ev) : option string :=
  match hook_events evs with
  | e :: _ =>
      match e_call e with
      | CHook _ body =>
          let p := jget "parent" (obj_map body) in
          if is_deleting p && negb (should_finalize c p) then
            if existsb (fun e' => match is_api e' with
                                  | Some q => match child_res_of c q with
                                              | Some _ => is_write q && content_changed e' || verb_eqb (q_verb q) VCreate || verb_eqb (q_verb q) VDelete
                                              | None => false end
                                  | None => false end) (after_hook evs)
            then Some "children-touched-for-dying-parent" else None
          else None
      | _ => None
      end
  | [] => None
  end.

(* ================= C11: parent status ================= *)
Definition only_status_differs (pre post : json) : bool :=
  let strip := fun o => match o with
                        | JObj m => JObj (aremove "status" (nested_remove m ["metadata"; "resourceVersion"]))
                        | _ => o end in
  jeqb (strip pre) (strip post).

(* the status write: a PUT to the status subresource, or - for a parent kind without one - a
   whole-object update (one that leaves the finalizers alone: the finalizer step also updates the parent) *)
Definition is_status_write (c : ccfg) (e : ev) : bool :=
  match is_api e with
  | Some q => verb_eqb (q_verb q) VUpdateStatus ||
              (negb (p_has_status c) && verb_eqb (q_verb q) VUpdate &&
               jeqb (jget "finalizers" (obj_map (jget "metadata" (obj_map (q_body q)))))
                    (jget "finalizers" (obj_map (jget "metadata" (obj_map (e_pre e))))))
  | None => false
  end.

Definition C11_round (c : ccfg) (parent : json) (evs : list ev) (res : sync_result) : option string :=
  match round_hook evs with
  | None => None
  | Some (_, body, r) =>
      let sent := jget "parent" (obj_map body) in
      let want := desired_status sent (hr_status r) in
      let pev := parent_events c parent (after_hook evs) in
      let status_puts := filter (is_status_write c) pev in
      match first_some (fun e =>
              match is_api e with
              | Some q =>
                  if negb (jeqb (jget "status" (obj_map (q_body q))) want) then Some "status-body-not-hook-status-plus-observedGeneration" else
                  if accepted e && negb (only_status_differs (e_pre e) (e_post e)) then Some "status-write-changed-more-than-status" else
                  if accepted e && negb (String.eqb (get_uid (e_pre e)) (get_uid parent)) then Some "status-written-to-other-uid" else
                  None
              | None => None end) status_puts with
      | Some s => Some s
      | None =>
          (* a PUT is built on the GET just before it; no PUT when that GET already showed the wanted status *)
          before_each (fun seen e =>
            match is_api e with
            | Some q =>
                if is_status_write c e then
                  match rev (filter (fun e' => match is_api e' with Some q' => verb_eqb (q_verb q') VGet | None => false end) seen) with
                  | g :: _ =>
                      match e_ans g with
                      | AObj cur =>
                          if negb (String.eqb (get_rv (q_body q)) (get_rv cur)) then Some "status-put-not-built-on-fresh-read" else
                          if jeqb (jget "status" (obj_map cur)) want then Some "status-written-although-equal" else
                          if negb (String.eqb (get_uid cur) (get_uid parent)) then Some "status-put-after-uid-mismatch" else None
                      | _ => Some "status-put-after-failed-read"
                      end
                  | [] => Some "status-put-without-read"
                  end
                else None
            | None => None end) [] pev
      end
  end.

(* converse: a sync that ends well leaves the status equal to the hook's; if the last read of the
   parent showed another status, a write followed *)
Definition C11_written_when_different (c : ccfg) (parent : json) (evs : list ev) (res : sync_result) : option string :=
  match res, round_hook evs with
  | SDone, Some (_, body, r) =>
      let sent := jget "parent" (obj_map body) in
      let want := desired_status sent (hr_status r) in
      let pev := parent_events c parent (after_hook evs) in
      match rev (filter (is_status_write c) pev) with
      | last :: earlier =>
          (* the sync ended well although its last status write was refused: fine when the parent is gone, or
             after the conflict retries are used up (the next event brings the parent back); nothing else *)
          if accepted last then None else
          match e_ans last with
          | AFail ENotFound | AFail EGone => None
          | AFail EConflict =>
              (* a conflict is retried on a fresh read: the refused write is not the last word on the parent *)
              match earlier, rev pev with
              | [], e' :: _ => if is_status_write c e' then Some "status-conflict-not-retried" else None
              | _, _ => None
              end
          | _ => Some "failed-status-write-reported-as-success"
          end
      | [] =>
      match rev (filter (fun e => match is_api e with Some q => verb_eqb (q_verb q) VGet | None => false end) pev) with
      | g :: _ => match e_ans g with
                  | AObj cur => if String.eqb (get_uid cur) (get_uid parent) && negb (jeqb (jget "status" (obj_map cur)) want)
                                then Some "status-differs-from-hook-status-but-not-written" else None
                  | _ => None end
      | [] => None
      end
      end
  | _, _ => None
  end.

(* the status phase is attempted whenever children were reconciled, even if some failed *)
Definition child_write_failed (c : ccfg) (evs : list ev) : bool :=
  existsb (fun e => match is_api e with
                    | Some q => match child_res_of c q with
                                | Some _ => is_write q && negb (accepted e)
                                | None => false end
                    | None => false end) (after_hook evs).

Definition child_write_seen (c : ccfg) (evs : list ev) : bool :=
  existsb (fun e => match is_api e with
                    | Some q => match child_res_of c q with Some _ => is_write q | None => false end
                    | None => false end) (after_hook evs).

Definition status_phase_seen (c : ccfg) (parent : json) (evs : list ev) : bool :=
  match rev evs with
  | e :: _ => match is_api e with Some q => targets_parent c parent q | None => false end
  | [] => false
  end.

Definition C11_attempted (c : ccfg) (parent : json) (evs : list ev) : option string :=
  if child_write_seen c evs && negb (status_phase_seen c parent evs) then Some "status-not-attempted-after-child-reconcile" else None.

(* ================= C03: what the hook sees ================= *)
Definition adopted_in (c : ccfg) (kc : child_cfg) (puid : string) (o : json) (evs : list ev) : bool :=
  existsb (fun e => match is_api e with
                    | Some q => verb_eqb (q_verb q) VUpdate && String.eqb (q_res q) (ch_res kc) &&
                                String.eqb (q_name q) (get_name o) &&
                                String.eqb (q_ns q) (eff_ns (ch_namespaced kc) (get_ns o)) &&
                                accepted e && controlled_by (e_post e) puid
                    | None => false end) evs.

Definition before_hook (evs : list ev) : list ev :=
  (fix go (l : list ev) : list ev :=
     match l with
     | [] => []
     | e :: l' => match e_call e with CHook HSync _ | CHook HFinalize _ => [] | _ => e :: go l' end
     end) evs.

Definition C03_expected (c : ccfg) (k : cache) (sent : json) (sel : selector) (evs : list ev) : json :=
  let puid := get_uid sent in
  let pns := get_ns sent in
  JObj (fold_left (fun acc kc =>
    let members := filter (fun o =>
        visible c sent o && sel_matches sel (get_labels o) &&
        (controlled_by o puid ||
         (is_orphan o && negb (is_deleting o) && negb (is_deleting sent) && adopted_in c kc puid o (before_hook evs))))
        (cached k (ch_res kc)) in
    aset (gvk_text (ch_api_version kc) (ch_kind kc))
         (JObj (fold_left (fun m o =>
                  if String.eqb pns "" || String.eqb pns (get_ns o) then aset (relative_name pns o) o m else m)
                members [])) acc) (kids c) []).

Definition C03_round (c : ccfg) (k : cache) (evs : list ev) : option string :=
  match hook_events evs with
  | e :: _ =>
      match e_call e with
      | CHook _ body =>
          let sent := jget "parent" (obj_map body) in
          match make_selector c sent with
          | None => Some "hook-called-without-usable-selector"
          | Some sel =>
              if jeqb (jget "children" (obj_map body)) (C03_expected c k sent sel evs) then None
              else Some "children-map-differs-from-owned-set"
          end
      | _ => None
      end
  | [] => None
  end.

(* returned children without a namespace land in the parent's namespace: checked on creates *)
Definition C03_namespace_default (c : ccfg) (parent : json) (evs : list ev) : option string :=
  match round_hook evs with
  | None => None
  | Some (_, body, r) =>
      first_some (fun e => match is_api e with
        | Some q => match child_res_of c q with
                    | Some kc => if verb_eqb (q_verb q) VCreate && ch_namespaced kc && p_namespaced c &&
                                    negb (String.eqb (q_ns q) (get_ns parent))
                                 then Some "child-created-outside-parent-namespace" else None
                    | None => None end
        | None => None end) evs
  end.

(* ================= C04: ControllerRef rules ================= *)
Definition controller_count (o : json) : nat :=
  List.length (filter (fun r => match or_controller r with Some true => true | _ => false end) (get_owner_refs o)).

Definition refs_minus (puid : string) (o : json) : list string :=
  map or_uid (filter (fun r => negb (String.eqb (or_uid r) puid)) (get_owner_refs o)).

Definition C04_round (c : ccfg) (k : cache) (parent : json) (evs : list ev) : option string :=
  let puid := get_uid parent in
  before_each (fun seen e =>
    match is_api e with
    | None => None
    | Some q =>
        match child_res_of c q with
        | None => None
        | Some kc =>
            if negb (accepted e) then None else
            if Nat.ltb 1 (controller_count (e_post e)) then Some "two-controller-references" else
            if negb (verb_eqb (q_verb q) VUpdate) then None else
            let pre := e_pre e in let post := e_post e in
            if negb (strs_eqb (refs_minus puid pre) (refs_minus puid post)) && jeqb (strip_or_rv pre) (strip_or_rv post)
            then Some "foreign-owner-reference-lost-or-added" else
            if is_orphan pre && controlled_by post puid && negb (jeqb pre post) then
              (* adoption *)
              match find_cached c k q, make_selector c parent with
              | Some o, Some sel =>
                  if negb (sel_matches sel (get_labels o)) then Some "adopted-non-matching-orphan" else
                  if is_deleting o then Some "adopted-orphan-pending-deletion" else
                  if is_deleting parent then Some "deleting-parent-adopted" else
                  if negb (existsb (fun e' => match is_api e', e_ans e' with
                                              | Some q', AObj fresh => targets_parent c parent q' && verb_eqb (q_verb q') VGet &&
                                                                       String.eqb (get_uid fresh) puid && negb (is_deleting fresh)
                                              | _, _ => false end) seen)
                  then Some "adopted-without-live-parent-recheck" else None
              | _, _ => Some "adopted-object-not-in-cache"
              end
            else if controlled_by pre puid && negb (controlled_by post puid) && jeqb (strip_or_rv pre) (strip_or_rv post) then
              (* release *)
              match find_cached c k q, make_selector c parent with
              | Some o, Some sel =>
                  if sel_matches sel (get_labels o) then Some "released-matching-child" else
                  if is_deleting parent then Some "deleting-parent-released" else None
              | _, _ => Some "released-object-not-in-cache"
              end
            else None
        end
    end) [] evs.

(* a desired child that would be orphaned at once is rejected before anything is written *)
Definition C04_label_invariant (c : ccfg) (evs : list ev) : option string :=
  match round_hook evs with
  | None => None
  | Some (_, body, r) =>
      let sent := jget "parent" (obj_map body) in
      match desired_map (hr_children r) [], make_selector c sent with
      | Some d0, Some sel =>
          match enforce_labels c sent sel (uobjects d0) with
          | Some ds =>
              (* with selector generation the uid label is on every created child *)
              if gen_selector c &&
                 existsb (fun e => match is_api e with
                                   | Some q => match child_res_of c q with
                                               | Some _ => verb_eqb (q_verb q) VCreate &&
                                                           negb (match slookup "controller-uid" (get_labels (q_body q)) with
                                                                 | Some _ => true | None => false end)
                                               | None => false end
                                   | None => false end) evs
              then Some "child-created-without-controller-uid-label" else None
          | None =>
              if existsb (fun e => match is_api e with
                                   | Some q => match child_res_of c q with
                                               | Some _ => is_write q
                                               | None => verb_eqb (q_verb q) VUpdateStatus end
                                   | None => false end) (after_hook evs)
              then Some "writes-despite-unselectable-desired-child" else None
          end
      | _, _ => None
      end
  end.

(* ================= C12: failures, retries, benign races ================= *)
Definition fail_class (e : ev) : option eclass := match e_ans e with AFail c => Some c | _ => None end.

(* the documented benign races, by call site (requests after the hook) *)
Definition benign_after_hook (c : ccfg) (parent : json) (e : ev) : bool :=
  match is_api e, fail_class e with
  | Some q, Some cl =>
      if targets_parent c parent q then
        (* status write: the parent is gone, or changed under us *)
        eclass_eqb cl ENotFound || eclass_eqb cl EConflict
      else
        match q_verb q with
        | VDelete => eclass_eqb cl ENotFound
        | VCreate => eclass_eqb cl EAlreadyExists
        | VUpdate => eclass_eqb cl ENotFound || eclass_eqb cl EConflict
        | _ => false
        end
  | _, _ => true
  end.

Definition hard_failure (e : ev) : bool :=
  match e_ans e with
  | AFail EOther | AFail EInvalid => true
  | AHookErr => true
  | _ => false
  end.

Definition qhas (qs : list (string * string * Z)) (op key : string) : bool :=
  existsb (fun t => match t with (o, k, _) => String.eqb o op && String.eqb k key end) qs.

Definition C12_round (c : ccfg) (parent : json) (key : string) (evs : list ev) (res : sync_result)
           (qs : list (string * string * Z)) : option string :=
  match res with
  | SPanic => Some "panic"
  | _ =>
      (* requeue discipline *)
      if negb (qhas qs "Done" key) then Some "work-item-not-marked-done" else
      if qhas qs "AddRateLimited" key && qhas qs "Forget" key then Some "forgotten-and-requeued" else
      if negb (qhas qs "AddRateLimited" key) && negb (qhas qs "Forget" key) then Some "neither-requeued-nor-forgotten" else
      (* a hard failure anywhere must surface as an error with back-off *)
      if existsb hard_failure evs && negb (qhas qs "AddRateLimited" key) then Some "failure-swallowed-without-requeue" else
      (* before the hook the parent is read for one reason only - to re-check that it may still adopt or be
         finalized: a read that fails (gone included) ends the sync with an error; the hook is not reached *)
      if match rev (filter (fun e => match is_api e with
                                     | Some q => targets_parent c parent q && verb_eqb (q_verb q) VGet
                                     | None => false end) (before_hook evs)) with
         | last :: _ => negb (accepted last)    (* a read that was retried with success is no failure *)
         | [] => false end &&
         negb (match hook_events evs with [] => true | _ => false end) && negb (qhas qs "AddRateLimited" key)
      then Some "failed-parent-read-swallowed-without-requeue" else
      (* after the hook only the documented races are benign, each at its own call site: any other
         refused request (a conflict on a delete or a create, say) must surface as an error too *)
      if existsb (fun e => negb (benign_after_hook c parent e)) (after_hook evs) && negb (qhas qs "AddRateLimited" key)
      then Some "non-benign-failure-swallowed-without-requeue" else
      (* 429: requeue after the advertised delay, not an error *)
      match first_some (fun e => match e_ans e with AHook429 n => Some (string_of_Z n) | _ => None end) evs with
      | Some n =>
          if qhas qs "AddRateLimited" key then Some "hook-429-counted-as-error" else
          if existsb (fun t => match t with (o, k, d) => String.eqb o "AddAfter" && String.eqb k key &&
                                                         String.eqb (string_of_Z (d / 1000)) n end) qs
          then None else Some "hook-429-not-requeued-after-delay"
      | None =>
          (* only benign races after a clean prelude: not an error *)
          if status_phase_seen c parent evs && forallb accepted (before_hook evs) &&
             (* the hook was reached (a parent refused before that - an unusable selector - is an error of its own) *)
             negb (match hook_events evs with [] => true | _ => false end) &&
             (* a finalized answer puts the finalizer removal between the hook and the status write: a parent
                that is gone at that point is reported (the next sync finds nothing to do); not judged here *)
             negb (match round_hook evs with Some (_, _, hr) => hr_finalized hr | None => false end) &&
             forallb (benign_after_hook c parent) (after_hook evs) &&
             negb (existsb hard_failure evs) && qhas qs "AddRateLimited" key
          then
            (* conflicts on the parent are retried up to four times; four in a row is an error *)
            if Nat.leb 4 (List.length (filter (fun e => match is_api e, fail_class e with
                                                        | Some q, Some EConflict => targets_parent c parent q
                                                        | _, _ => false end) evs))
            then None else Some "benign-race-reported-as-error"
          else None
      end
  end.
