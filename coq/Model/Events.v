(* Events.v - which queue keys a watch event produces.

   Pure model of the informer event handlers of
     pkg/controller/composite/controller.go   enqueueParentObject (337-352),
       updateParentObject (363-388), resolveControllerRef (393-425),
       onChildAdd/Update/Delete (427-505), findPotentialParents (507-535)
     pkg/controller/decorator/controller.go   the same handlers (329-502),
       parentQueueKey / splitParentQueueKey (784-811), selector.go Matches
   as functions  (config, parent cache, event) -> list of keys given to queue.Add.

   The parent cache is the content of the parent informer's indexer: a list of
   objects; the indexer is a map keyed by cache.MetaNamespaceKeyFunc, so a
   lookup by key is `find` on `key_of` (theorems assume the keys pairwise
   distinct).  Lister().List order is Go map order: results are compared as
   multisets.  Everything follows the code as it is. *)
From MC Require Export Model.Composite.

(* ---------- what a handler is handed ---------- *)
(* obj interface{}: either *unstructured.Unstructured or a
   cache.DeletedFinalStateUnknown{Key, Obj} tombstone *)
Inductive wobj :=
| WObj (o : json)
| WTomb (key : string) (o : json).

Definition wobj_obj (w : wobj) : json := match w with WObj o => o | WTomb _ o => o end.

Inductive event :=
| EAdd (o : json)
| EUpdate (old cur : json)                 (* old = cur (same resourceVersion): resync replay *)
| EDelete (o : json)
| EDeleteTombstone (key : string) (o : json).

(* which informer delivered the event *)
Inductive src := SParent | SChild.

(* ---------- keys ---------- *)
(* cache.MetaNamespaceKeyFunc *)
Definition key_of (o : json) : string :=
  if String.eqb (get_ns o) "" then get_name o else get_ns o ++ "/" ++ get_name o.

(* common.GetObject(informer, ns, name): Lister().Get(name) / Lister().Namespace(ns).Get(name),
   i.e. indexer.GetByKey(name) / GetByKey(ns + "/" + name) *)
Definition lookup_key (ns name : string) : string :=
  if String.eqb ns "" then name else ns ++ "/" ++ name.

Definition cache_get (parents : list json) (k : string) : option json :=
  find (fun p => String.eqb (key_of p) k) parents.

(* cache.SplitMetaNamespaceKey (what composite sync does with a key) *)
Definition split_meta_key (k : string) : option (string * string) :=
  match split_at slash k with
  | None => Some ("", k)
  | Some (ns, rest) =>
      match split_at slash rest with
      | None => Some (ns, rest)
      | Some _ => None
      end
  end.

(* ---------- string maps as reflect.DeepEqual sees them ---------- *)
(* GetLabels()/GetAnnotations(): NestedStringMap with the error dropped: nil
   (None) when the field is missing, null, not a map or holds a non-string;
   a present {} is a non-nil empty map, which DeepEqual tells from nil. *)
Definition is_strlike (j : json) : bool := match j with JStr _ | JText _ => true | _ => false end.

Definition str_map_field (o : json) (path : list string) : option amap :=
  match nested_get (obj_map o) path with
  | NFound (JObj m) => if forallb (fun kv => is_strlike (snd kv)) m then Some m else None
  | _ => None
  end.

Definition opt_map_eqb (a b : option amap) : bool :=
  match a, b with
  | None, None => true
  | Some x, Some y => jeqb (JObj x) (JObj y)
  | _, _ => false
  end.

Definition labels_equal (old cur : json) : bool :=
  opt_map_eqb (str_map_field old ["metadata"; "labels"]) (str_map_field cur ["metadata"; "labels"]).
Definition annotations_equal (old cur : json) : bool :=
  opt_map_eqb (str_map_field old ["metadata"; "annotations"]) (str_map_field cur ["metadata"; "annotations"]).

(* labels.Set(obj.GetAnnotations()) for selector matching *)
Definition get_annotations (o : json) : smap :=
  match str_map_field o ["metadata"; "annotations"] with
  | Some m => map (fun kv => (fst kv, match snd kv with JStr s => s | _ => "" end)) m
  | None => []
  end.

(* the update carries nothing but status (or nothing at all) *)
Definition status_only (old cur : json) : bool :=
  Z.eqb (get_generation old) (get_generation cur) &&
  labels_equal old cur && annotations_equal old cur && negb (is_deleting cur).

(* ====================== CompositeController ====================== *)
Record ecfg := mkECfg {
  e_cc : ccfg;
  ignore_status_changes : bool      (* spec.parentResource.ignoreStatusChanges (nil = false) *)
}.

(* !(!ContainsFinalizer(parent, finalizer) && doNotMatchLabels(labels)) *)
Definition cares (c : ccfg) (p : json) : bool :=
  has_finalizer p (finalizer_name c) || sel_matches (p_selector c) (get_labels p).

(* enqueueParentObject: a tombstone is unwrapped first and the object it carries
   goes through the same selector/finalizer filter; common.KeyFunc =
   DeletionHandlingMetaNamespaceKeyFunc returns a tombstone's Key *)
Definition enqueue_parent (c : ecfg) (w : wobj) : list string :=
  match w with
  | WObj o => if cares (e_cc c) o then [key_of o] else []
  | WTomb k o => if cares (e_cc c) o then [k] else []
  end.

(* updateParentObject *)
Definition update_parent (c : ecfg) (old cur : json) : list string :=
  if ignore_status_changes c && status_only old cur then []
  else enqueue_parent c (WObj cur).

(* common.ParseAPIVersion(...) group: text before the first "/" (none: core) - Obj.group_of *)
Definition resolve_controller_ref (c : ecfg) (parents : list json) (child_ns : string) (r : oref)
  : option json :=
  if negb (String.eqb (group_of (or_api_version r)) (group_of (p_api_version (e_cc c)))) then None else
  if negb (String.eqb (or_kind r) (p_kind (e_cc c))) then None else
  let pns := if p_namespaced (e_cc c) then child_ns else "" in
  match cache_get parents (lookup_key pns (or_name r)) with
  | None => None
  | Some p =>
      if negb (String.eqb (get_uid p) (or_uid r)) then None
      else if cares (e_cc c) p then Some p else None
  end.

(* Lister().Namespace(ns).List / Lister().List: cache.ListAllByNamespace falls
   back to ListAll for ns = "" (metav1.NamespaceAll) *)
Definition listed (c : ecfg) (child_ns : string) (p : json) : bool :=
  if p_namespaced (e_cc c) then String.eqb child_ns "" || String.eqb (get_ns p) child_ns else true.

(* the parent's own selector selects these labels (makeSelector errors and
   empty selectors are skipped) *)
Definition parent_selects (c : ecfg) (p : json) (ls : smap) : bool :=
  match make_selector (e_cc c) p with
  | None => false
  | Some s => negb (sel_empty s) && sel_matches s ls
  end.

Definition find_potential_parents (c : ecfg) (parents : list json) (child : json) : list json :=
  filter (fun p => listed c (get_ns child) p && parent_selects c p (get_labels child)) parents.

(* the common tail of onChildAdd and onChildDelete for a child with a ControllerRef *)
Definition wake_owner (c : ecfg) (parents : list json) (child : json) (r : oref) : list string :=
  match resolve_controller_ref c parents (get_ns child) r with
  | None => []
  | Some p => enqueue_parent c (WObj p)
  end.

(* onChildDelete: a tombstone is unwrapped first *)
Definition on_child_delete (c : ecfg) (parents : list json) (w : wobj) : list string :=
  let child := wobj_obj w in
  match controller_of child with
  | None => []
  | Some r => wake_owner c parents child r
  end.

Definition on_child_add (c : ecfg) (parents : list json) (child : json) : list string :=
  if is_deleting child then on_child_delete c parents (WObj child) else
  match controller_of child with
  | Some r => wake_owner c parents child r
  | None => flat_map (fun p => enqueue_parent c (WObj p)) (find_potential_parents c parents child)
  end.

Definition on_child_update (c : ecfg) (parents : list json) (old cur : json) : list string :=
  if String.eqb (get_rv old) (get_rv cur) then [] else on_child_add c parents cur.

(* the handler tables installed by Start() *)
Definition on_parent_event (c : ecfg) (ev : event) : list string :=
  match ev with
  | EAdd o => enqueue_parent c (WObj o)
  | EUpdate old cur => update_parent c old cur
  | EDelete o => enqueue_parent c (WObj o)
  | EDeleteTombstone k o => enqueue_parent c (WTomb k o)
  end.

Definition on_child_event (c : ecfg) (parents : list json) (ev : event) : list string :=
  match ev with
  | EAdd o => on_child_add c parents o
  | EUpdate old cur => on_child_update c parents old cur
  | EDelete o => on_child_delete c parents (WObj o)
  | EDeleteTombstone k o => on_child_delete c parents (WTomb k o)
  end.

Definition handle (c : ecfg) (parents : list json) (s : src) (ev : event) : list string :=
  match s with
  | SParent => on_parent_event c ev
  | SChild => on_child_event c parents ev
  end.

(* ====================== DecoratorController ====================== *)
(* one entry of spec.resources, with what discovery says about it *)
Record dparent := mkDP {
  dp_api_version : string; dp_kind : string; dp_resource : string; dp_namespaced : bool;
  dp_label_sel : selector;           (* Everything when unset *)
  dp_annot_sel : selector;           (* Everything when unset *)
  dp_ignore_status : bool            (* ignoreStatusChanges (nil = false) *)
}.

Record dcfg := mkDCfg { dc_name : string; dc_parents : list dparent }.

Definition d_finalizer_name (c : dcfg) : string := "metacontroller.io/decoratorcontroller-" ++ dc_name c.

(* Go maps filled in a loop over spec.resources: the last rule with a key wins *)
Definition last_rule (f : dparent -> bool) (c : dcfg) : option dparent := find f (rev (dc_parents c)).

(* selectorMapKey(group, kind) = kind + "." + group *)
Definition selector_map_key (group kind : string) : string := kind ++ "." ++ group.

(* decoratorSelector.Matches *)
Definition d_sel_matches (c : dcfg) (p : json) : bool :=
  let key := selector_map_key (group_of (get_api_version p)) (get_kind p) in
  match last_rule (fun r => String.eqb (selector_map_key (group_of (dp_api_version r)) (dp_kind r)) key) c with
  | None => false
  | Some r => sel_matches (dp_label_sel r) (get_labels p) && sel_matches (dp_annot_sel r) (get_annotations p)
  end.

Definition d_cares (c : dcfg) (p : json) : bool :=
  d_sel_matches c p || has_finalizer p (d_finalizer_name c).

Definition colon : ascii := ":"%char.

(* fmt.Sprintf("%s:%s:%s:%s", apiVersion, kind, namespace, name) *)
Definition d_key_of (o : json) : string :=
  get_api_version o ++ ":" ++ get_kind o ++ ":" ++ get_ns o ++ ":" ++ get_name o.

(* parentQueueKey: a tombstone is keyed by the object it carries
   (tombstone.Key is "ns/name", not a parent queue key) *)
Definition d_parent_queue_key (w : wobj) : string := d_key_of (wobj_obj w).

(* splitParentQueueKey: strings.SplitN(key, ":", 4), all four parts required *)
Definition split_parent_queue_key (k : string) : option (string * string * string * string) :=
  match split_at colon k with
  | None => None
  | Some (a, r1) =>
      match split_at colon r1 with
      | None => None
      | Some (b, r2) =>
          match split_at colon r2 with
          | None => None
          | Some (ns, name) => Some (a, b, ns, name)
          end
      end
  end.

(* enqueueParentObject: tombstones are unwrapped before the filter, as in the composite *)
Definition d_enqueue_parent (c : dcfg) (w : wobj) : list string :=
  match w with
  | WObj o => if d_cares c o then [d_parent_queue_key w] else []
  | WTomb _ o => if d_cares c o then [d_parent_queue_key w] else []
  end.

(* updateParentObject: some rule for the OLD object's apiVersion/kind has ignoreStatusChanges *)
Definition d_ignores_status (c : dcfg) (old : json) : bool :=
  existsb (fun r => String.eqb (dp_api_version r) (get_api_version old) &&
                    String.eqb (dp_kind r) (get_kind old) && dp_ignore_status r) (dc_parents c).

Definition d_update_parent (c : dcfg) (old cur : json) : list string :=
  if d_ignores_status c old && status_only old cur then []
  else d_enqueue_parent c (WObj cur).

(* schema.ParseGroupVersion(...).Group with the error dropped: "" for "", "/",
   no slash, or more than one slash *)
Definition d_group_of (apiVersion : string) : string :=
  if String.eqb apiVersion "" || String.eqb apiVersion "/" then "" else
  match split_at slash apiVersion with
  | None => ""
  | Some (g, v) => match split_at slash v with None => g | Some _ => "" end
  end.

(* the informer of a rule holds the objects of that apiVersion and kind *)
Definition d_cache_get (r : dparent) (parents : list json) (k : string) : option json :=
  find (fun p => String.eqb (get_api_version p) (dp_api_version r) &&
                 String.eqb (get_kind p) (dp_kind r) && String.eqb (key_of p) k) parents.

Definition d_resolve_controller_ref (c : dcfg) (parents : list json) (child_ns : string) (r : oref)
  : option json :=
  match last_rule (fun x => String.eqb (group_of (dp_api_version x)) (d_group_of (or_api_version r)) &&
                            String.eqb (dp_kind x) (or_kind r)) c with
  | None => None
  | Some rule =>
      let pns := if dp_namespaced rule then child_ns else "" in
      match d_cache_get rule parents (lookup_key pns (or_name r)) with
      | None => None
      | Some p =>
          if negb (String.eqb (get_uid p) (or_uid r)) then None
          else if d_cares c p then Some p else None
      end
  end.

Definition d_wake_owner (c : dcfg) (parents : list json) (child : json) (r : oref) : list string :=
  match d_resolve_controller_ref c parents (get_ns child) r with
  | None => []
  | Some p => d_enqueue_parent c (WObj p)
  end.

Definition d_on_child_delete (c : dcfg) (parents : list json) (w : wobj) : list string :=
  let child := wobj_obj w in
  match controller_of child with
  | None => []
  | Some r => d_wake_owner c parents child r
  end.

(* no adoption: an orphan wakes nobody *)
Definition d_on_child_add (c : dcfg) (parents : list json) (child : json) : list string :=
  if is_deleting child then d_on_child_delete c parents (WObj child) else
  match controller_of child with
  | Some r => d_wake_owner c parents child r
  | None => []
  end.

Definition d_on_child_update (c : dcfg) (parents : list json) (old cur : json) : list string :=
  if String.eqb (get_rv old) (get_rv cur) then [] else d_on_child_add c parents cur.

Definition d_on_parent_event (c : dcfg) (ev : event) : list string :=
  match ev with
  | EAdd o => d_enqueue_parent c (WObj o)
  | EUpdate old cur => d_update_parent c old cur
  | EDelete o => d_enqueue_parent c (WObj o)
  | EDeleteTombstone k o => d_enqueue_parent c (WTomb k o)
  end.

Definition d_on_child_event (c : dcfg) (parents : list json) (ev : event) : list string :=
  match ev with
  | EAdd o => d_on_child_add c parents o
  | EUpdate old cur => d_on_child_update c parents old cur
  | EDelete o => d_on_child_delete c parents (WObj o)
  | EDeleteTombstone k o => d_on_child_delete c parents (WTomb k o)
  end.

Definition d_handle (c : dcfg) (parents : list json) (s : src) (ev : event) : list string :=
  match s with
  | SParent => d_on_parent_event c ev
  | SChild => d_on_child_event c parents ev
  end.

(* ====================== related objects (customize.Manager) ====================== *)
(* pkg/controller/common/customize/manager.go: onRelatedAdd/Update/Delete,
   notifyRelatedParents, findRelatedParents (193-291), matchesRelatedRule (322-358).
   The customize hook's answer for a parent is cached under (uid, generation);
   `answers` is that cache after the lookups of the call (a parent without an
   entry is one whose hook call failed: it is skipped). *)
Record rel_rule := mkRR {
  rr_api_version : string;
  rr_kind : option string;                 (* kind of rule.resource per discovery; None: unknown resource *)
  rr_selector : option (option selector);  (* None: no labelSelector; Some None: it does not convert *)
  rr_namespace : string;
  rr_names : list string
}.

Record rcfg := mkRCfg {
  r_parent_kinds : list (string * string * bool)   (* parentKinds: (group, kind) -> namespaced *)
}.

Definition r_parent_namespaced (c : rcfg) (p : json) : option bool :=
  match find (fun e => String.eqb (fst (fst e)) (d_group_of (get_api_version p)) &&
                       String.eqb (snd (fst e)) (get_kind p)) (rev (r_parent_kinds c)) with
  | Some e => Some (snd e)
  | None => None
  end.

Definition answers := list (string * Z * list rel_rule).

Definition answer_of (a : answers) (p : json) : option (list rel_rule) :=
  match find (fun e => String.eqb (fst (fst e)) (get_uid p) && Z.eqb (snd (fst e)) (get_generation p)) a with
  | Some e => Some (snd e)
  | None => None
  end.

(* matchesRelatedRule, every error read as "no match" (the caller logs and continues) *)
Definition matches_related_rule (parent_namespaced : bool) (parent related : json) (rule : rel_rule) : bool :=
  match rr_kind rule with
  | None => false
  | Some k =>
      if negb (String.eqb (get_api_version related) (rr_api_version rule) && String.eqb (get_kind related) k) then false else
      let has_sel := match rr_selector rule with Some _ => true | None => false end in
      let has_nn := negb (String.eqb (rr_namespace rule) "") || negb (Nat.eqb (List.length (rr_names rule)) 0) in
      let names_ok := if Nat.eqb (List.length (rr_names rule)) 0 then true else mem_str (get_name related) (rr_names rule) in
      if has_sel && has_nn then false
      else if has_nn then
        if parent_namespaced then
          if negb (String.eqb (rr_namespace rule) "") && negb (String.eqb (get_ns parent) (rr_namespace rule)) then false
          else if negb (String.eqb (get_ns parent) (get_ns related)) then false
          else names_ok
        else if negb (String.eqb (rr_namespace rule) "") && negb (String.eqb (get_ns related) (rr_namespace rule)) then false
        else names_ok
      else
        match rr_selector rule with
        | None => true
        | Some None => false
        | Some (Some s) => sel_matches s (get_labels related)
        end
  end.

(* the cached answer of p selects one of the given states of the related object *)
Definition parent_selects_related (c : rcfg) (a : answers) (relateds : list json) (p : json) : bool :=
  match answer_of a p, r_parent_namespaced c p with
  | Some rules, Some nsd =>
      existsb (fun rule => existsb (fun rel => matches_related_rule nsd p rel rule) relateds) rules
  | _, _ => false
  end.

Definition find_related_parents (c : rcfg) (a : answers) (parents : list json) (relateds : list json) : list json :=
  filter (parent_selects_related c a relateds) parents.

(* the objects handed to enqueueParent *)
Definition on_related_event (c : rcfg) (a : answers) (parents : list json) (ev : event) : list json :=
  match ev with
  | EAdd o => find_related_parents c a parents [o]        (* a deleting object goes through onRelatedDelete: the same *)
  | EUpdate old cur =>
      if String.eqb (get_rv old) (get_rv cur) then [] else find_related_parents c a parents [old; cur]
  | EDelete o => find_related_parents c a parents [o]
  | EDeleteTombstone _ o => find_related_parents c a parents [o]
  end.

(* composed with the composite controller's enqueueParent = enqueueParentObject *)
Definition related_keys (cc : ecfg) (c : rcfg) (a : answers) (parents : list json) (ev : event) : list string :=
  flat_map (fun p => enqueue_parent cc (WObj p)) (on_related_event c a parents ev).
