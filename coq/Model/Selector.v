(* Selector.v — metav1.LabelSelector and labels.Selector (library code,
   modelled; validated by the correspondence runs). *)
From MC Require Export Model.Obj.

Inductive sel_op := OpIn | OpNotIn | OpExists | OpDoesNotExist | OpUnknown.
Record sel_req := mkReq { rq_key : string; rq_op : sel_op; rq_vals : list string }.
Record label_selector := mkSel { match_labels : smap; match_exprs : list sel_req }.

(* the internal selector: list of requirements, or Nothing *)
Inductive selector := SelReqs (l : list sel_req) | SelNothing.

Definition req_valid (r : sel_req) : bool :=
  match rq_op r with
  | OpIn | OpNotIn => negb (Nat.eqb (List.length (rq_vals r)) 0)
  | OpExists | OpDoesNotExist => Nat.eqb (List.length (rq_vals r)) 0
  | OpUnknown => false
  end.

(* metav1.LabelSelectorAsSelector: None = error *)
Definition as_selector (ls : option label_selector) : option selector :=
  match ls with
  | None => Some SelNothing
  | Some s =>
      let reqs := (map (fun kv => mkReq (fst kv) OpIn [snd kv]) (match_labels s) ++ match_exprs s)%list in
      if forallb req_valid (match_exprs s) then Some (SelReqs reqs) else None
  end.

Definition req_matches (r : sel_req) (ls : smap) : bool :=
  match rq_op r with
  | OpIn => match slookup (rq_key r) ls with Some v => mem_str v (rq_vals r) | None => false end
  | OpNotIn => match slookup (rq_key r) ls with Some v => negb (mem_str v (rq_vals r)) | None => true end
  | OpExists => match slookup (rq_key r) ls with Some _ => true | None => false end
  | OpDoesNotExist => match slookup (rq_key r) ls with Some _ => false | None => true end
  | OpUnknown => false
  end.

Definition sel_matches (s : selector) (ls : smap) : bool :=
  match s with SelNothing => false | SelReqs l => forallb (fun r => req_matches r ls) l end.

Definition sel_everything : selector := SelReqs [].
Definition sel_empty (s : selector) : bool :=
  match s with SelReqs [] => true | _ => false end.

(* ---- decoding a LabelSelector from the parent's spec.selector ---- *)
Definition op_of_string (s : string) : sel_op :=
  if String.eqb s "In" then OpIn else if String.eqb s "NotIn" then OpNotIn else
  if String.eqb s "Exists" then OpExists else if String.eqb s "DoesNotExist" then OpDoesNotExist else OpUnknown.

Definition strs_of (j : json) : option (list string) :=
  match j with
  | JNull => Some []
  | JArr l => all_some (map as_str l)
  | _ => None
  end.

Definition req_of_json (j : json) : option sel_req :=
  match j with
  | JObj m =>
      match jget "key" m, jget "operator" m, strs_of (jget "values" m) with
      | JStr k, JStr o, Some vs => Some (mkReq k (op_of_string o) vs)
      | _, _, _ => None
      end
  | _ => None
  end.

(* json -> LabelSelector (GetNestedFieldInto = marshal + unmarshal); None = decode error *)
Definition label_selector_of_json (j : json) : option label_selector :=
  match j with
  | JNull => Some (mkSel [] [])
  | JObj m =>
      let ml := match jget "matchLabels" m with
                | JNull => Some []
                | JObj lm => all_some (map (fun kv => match snd kv with JStr s => Some (fst kv, s) | _ => None end) lm)
                | _ => None end in
      let me := match jget "matchExpressions" m with
                | JNull => Some []
                | JArr l => all_some (map req_of_json l)
                | _ => None end in
      match ml, me with Some a, Some b => Some (mkSel a b) | _, _ => None end
  | _ => None
  end.
