(* HookIO.v — what goes over the wire to a hook and how the answer is
   decoded (pkg/controller/common/api/{v1,v2}, pkg/controller/*/api/v1/hooks.go,
   pkg/controller/*/hooks.go). *)
From MC Require Export Model.Prog.

(* api.GroupVersionKind.MarshalText *)
Definition gvk_text (apiVersion kind : string) : string :=
  kind ++ "." ++ apiVersion.   (* Kind.version  or  Kind.group/version *)

(* v1.relativeName *)
Definition relative_name (parent_ns : string) (o : json) : string :=
  if String.eqb parent_ns "" && negb (String.eqb (get_ns o) "")
  then get_ns o ++ "/" ++ get_name o else get_name o.

(* v2 qualifiedName *)
Definition qualified_name (o : json) : string :=
  if String.eqb (get_ns o) "" then get_name o else get_ns o ++ "/" ++ get_name o.

(* A UniformObjectMap: groups keyed by (apiVersion, kind), objects by qualified name.
   Insert replaces an existing entry of the same name. *)
Definition group := (string * string * list (string * json))%type.   (* apiVersion, kind, objects *)
Definition umap := list group.

Fixpoint oset (k : string) (v : json) (m : list (string * json)) : list (string * json) :=
  match m with
  | [] => [(k, v)]
  | (k', v') :: m' => if String.eqb k k' then (k, v) :: m' else (k', v') :: oset k v m'
  end.

Fixpoint uinit (av kd : string) (m : umap) : umap :=
  match m with
  | [] => [(av, kd, [])]
  | (av', kd', os) :: m' =>
      if String.eqb av av' && String.eqb kd kd' then m else (av', kd', os) :: uinit av kd m'
  end.

Fixpoint uinsert_at (av kd name : string) (o : json) (m : umap) : umap :=
  match m with
  | [] => [(av, kd, [(name, o)])]
  | (av', kd', os) :: m' =>
      if String.eqb av av' && String.eqb kd kd' then (av', kd', oset name o os) :: m'
      else (av', kd', os) :: uinsert_at av kd name o m'
  end.

Definition uinsert (o : json) (m : umap) : umap :=
  uinsert_at (get_api_version o) (get_kind o) (qualified_name o) o m.

Definition ufind_group (av kd : string) (m : umap) : option (list (string * json)) :=
  match find (fun g => match g with (av', kd', _) => String.eqb av av' && String.eqb kd kd' end) m with
  | Some (_, _, os) => Some os | None => None end.

(* Convert: the wire view relative to a parent *)
Definition convert_group (parent_ns : string) (os : list (string * json)) : json :=
  JObj (fold_left (fun acc kv =>
          let o := snd kv in
          if String.eqb parent_ns "" || String.eqb parent_ns (get_ns o)
          then aset (relative_name parent_ns o) o acc else acc) os []).

Definition convert (parent_ns : string) (m : umap) : json :=
  JObj (fold_left (fun acc g => match g with (av, kd, os) =>
          aset (gvk_text av kd) (convert_group parent_ns os) acc end) m []).

(* ---- decoding CompositeHookResponse ---- *)
Record hook_resp := mkHR {
  hr_status : json;                    (* JNull = nil map *)
  hr_children : list (option json);    (* None = a null entry (nil pointer) *)
  hr_resync : json;                    (* JNull / JInt / JFloat *)
  hr_finalized : bool }.

Definition child_entry (j : json) : option (option json) :=
  match j with
  | JNull => Some None
  | JObj m => if String.eqb (nested_string m ["kind"]) "" then None else Some (Some j)
  | _ => None
  end.

Definition is_number (j : json) : bool := match j with JInt _ | JFloat _ => true | _ => false end.

(* None = decode error *)
Definition decode_composite (j : json) : option hook_resp :=
  match j with
  | JNull => Some (mkHR JNull [] JNull false)
  | JObj m =>
      let st := jget "status" m in
      let ch := jget "children" m in
      let rs := jget "resyncAfterSeconds" m in
      let fi := jget "finalized" m in
      if negb (is_null st || match st with JObj _ => true | _ => false end) then None else
      if negb (is_null rs || is_number rs) then None else
      match fi with
      | JNull | JBool _ =>
          match ch with
          | JNull => Some (mkHR st [] rs (match fi with JBool b => b | _ => false end))
          | JArr l => match all_some (map child_entry l) with
                      | Some es => Some (mkHR st es rs (match fi with JBool b => b | _ => false end))
                      | None => None end
          | _ => None
          end
      | _ => None
      end
  | _ => None
  end.

Definition positive_number (j : json) : bool :=
  match j with
  | JInt z => Z.ltb 0 z
  | JFloat s => match s with String c _ => negb (Ascii.eqb c "-"%char) | EmptyString => false end
  | _ => false
  end.

(* SetNamespace(parent ns) on children returned without one *)
Definition set_ns (o : json) (ns : string) : json :=
  match o with
  | JObj m => if String.eqb ns "" then JObj (nested_remove m ["metadata"; "namespace"])
              else match nested_set m ["metadata"; "namespace"] (JStr ns) with
                   | Some m' => JObj m' | None => o end
  | _ => o
  end.

Definition default_ns (parent_ns : string) (c : option json) : option json :=
  match c with
  | Some o => if String.eqb (get_ns o) "" then Some (set_ns o parent_ns) else Some o
  | None => None
  end.
