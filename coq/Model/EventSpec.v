(* EventSpec.v - the declarative side of property C14: which parents an event
   can concern (`affects`), and what must never be queued.  These constants are
   used both by the theorems (Properties/C14.v) and by the correspondence check
   (Check/C14_check.v), which evaluates them on the implementation's own queue. *)
From MC Require Export Model.Events.

(* the object an event is about (for an update: its new state) *)
Definition ev_obj (ev : event) : json :=
  match ev with
  | EAdd o => o
  | EUpdate _ cur => cur
  | EDelete o => o
  | EDeleteTombstone _ o => o
  end.

Definition is_tombstone (ev : event) : bool :=
  match ev with EDeleteTombstone _ _ => true | _ => false end.

(* the object is gone (a deleted child is never adopted) *)
Definition ev_is_delete (ev : event) : bool :=
  match ev with EDelete _ | EDeleteTombstone _ _ => true | _ => false end.

(* a cache resync replays the stored object: same resourceVersion on both sides *)
Definition is_resync (ev : event) : bool :=
  match ev with EUpdate old cur => String.eqb (get_rv old) (get_rv cur) | _ => false end.

(* informers build a tombstone's key from the object they last saw *)
Definition event_wf (ev : event) : bool :=
  match ev with EDeleteTombstone k o => String.eqb k (key_of o) | _ => true end.

(* no "/" inside (names and namespaces are DNS labels) *)
Fixpoint no_char (c : ascii) (s : string) : bool :=
  match s with
  | EmptyString => true
  | String a s' => negb (Ascii.eqb a c) && no_char c s'
  end.

(* names as the API server accepts them: no "/" inside *)
Definition slash_free (p : json) : bool := no_char slash (get_ns p) && no_char slash (get_name p).

(* hypothesis of the soundness theorems for child events: the names the lookup
   key is built from (cached parents, the child's namespace, the reference's name) *)
Definition names_ok (parents : list json) (s : src) (ev : event) : bool :=
  match s with
  | SParent => true
  | SChild =>
      forallb slash_free parents && no_char slash (get_ns (ev_obj ev)) &&
      match controller_of (ev_obj ev) with Some r => no_char slash (or_name r) | None => true end
  end.

(* the decorator's parent caches: one indexer per parent kind, each keyed by ns/name *)
Definition d_slot (p : json) : string * string * string := (get_api_version p, get_kind p, key_of p).

(* ====================== CompositeController ====================== *)

(* "with status changes ignored only parent updates that change neither
   generation, labels, annotations nor deletion state are dropped" *)
Definition droppable_update (c : ecfg) (ev : event) : bool :=
  match ev with
  | EUpdate old cur =>
      ignore_status_changes c &&
      (Z.eqb (get_generation old) (get_generation cur) && labels_equal old cur &&
       annotations_equal old cur && negb (is_deleting cur))
  | _ => false
  end.

(* the controller reference r, found on a child living in child_ns, names the cached parent p:
   group and kind of the parent resource, p's name, p's UID, and p's namespace
   when parents are namespaced *)
Definition ref_names (c : ecfg) (child_ns : string) (r : oref) (p : json) : bool :=
  String.eqb (group_of (or_api_version r)) (group_of (p_api_version (e_cc c))) &&
  String.eqb (or_kind r) (p_kind (e_cc c)) &&
  String.eqb (or_name r) (get_name p) &&
  String.eqb (or_uid r) (get_uid p) &&
  (if p_namespaced (e_cc c) then String.eqb (get_ns p) child_ns else String.eqb (get_ns p) "").

(* the orphan o could be adopted by p: p's own selector (generated or spec.selector)
   is usable and matches o's labels, and o is where p looks for children *)
Definition orphan_selected (c : ecfg) (p o : json) : bool :=
  (if p_namespaced (e_cc c) then String.eqb (get_ns o) "" || String.eqb (get_ns p) (get_ns o) else true) &&
  match make_selector (e_cc c) p with
  | Some s => negb (sel_empty s) && sel_matches s (get_labels o)
  | None => false
  end.

(* the event can alter the reconciliation of parent p.
   SParent: p is the event's object (same key), it matches the selector or
   carries the finalizer, and the update is not a droppable one.
   SChild: p is a cached parent, and either the child's controller reference
   names p (and p is one the controller cares about), or the child is a live
   orphan p's selector matches.  A resync replay of a child affects nobody. *)
Definition affects (c : ecfg) (s : src) (ev : event) (p : json) : bool :=
  match s with
  | SParent =>
      String.eqb (key_of p) (key_of (ev_obj ev)) && cares (e_cc c) (ev_obj ev) &&
      negb (droppable_update c ev)
  | SChild =>
      let o := ev_obj ev in
      negb (is_resync ev) && cares (e_cc c) p &&
      match controller_of o with
      | Some r => ref_names c (get_ns o) r p
      | None => negb (ev_is_delete ev) && negb (is_deleting o) && orphan_selected c p o
      end
  end.

(* the candidates `affects` ranges over *)
Definition candidates (parents : list json) (s : src) (ev : event) : list json :=
  match s with SParent => [ev_obj ev] | SChild => parents end.

(* ---- what must not be queued ---- *)
(* a parent event about an object the controller does not care about *)
Definition unmatched_parent_event (c : ecfg) (s : src) (ev : event) : bool :=
  match s with SParent => negb (cares (e_cc c) (ev_obj ev)) | SChild => false end.

(* ====================== DecoratorController ====================== *)
Definition d_droppable_update (c : dcfg) (ev : event) : bool :=
  match ev with
  | EUpdate old cur =>
      d_ignores_status c old &&
      (Z.eqb (get_generation old) (get_generation cur) && labels_equal old cur &&
       annotations_equal old cur && negb (is_deleting cur))
  | _ => false
  end.

(* the rule (parent kind) a controller reference points into *)
Definition d_ref_rule (c : dcfg) (r : oref) : option dparent :=
  last_rule (fun x => String.eqb (group_of (dp_api_version x)) (d_group_of (or_api_version r)) &&
                      String.eqb (dp_kind x) (or_kind r)) c.

Definition d_ref_names (c : dcfg) (child_ns : string) (r : oref) (p : json) : bool :=
  match d_ref_rule c r with
  | None => false
  | Some rule =>
      String.eqb (get_api_version p) (dp_api_version rule) &&
      String.eqb (get_kind p) (dp_kind rule) &&
      String.eqb (or_name r) (get_name p) &&
      String.eqb (or_uid r) (get_uid p) &&
      (if dp_namespaced rule then String.eqb (get_ns p) child_ns else String.eqb (get_ns p) "")
  end.

Definition d_affects (c : dcfg) (s : src) (ev : event) (p : json) : bool :=
  match s with
  | SParent =>
      String.eqb (d_key_of p) (d_key_of (ev_obj ev)) && d_cares c (ev_obj ev) &&
      negb (d_droppable_update c ev)
  | SChild =>
      let o := ev_obj ev in
      negb (is_resync ev) && d_cares c p &&
      match controller_of o with
      | Some r => d_ref_names c (get_ns o) r p
      | None => false
      end
  end.

Definition d_unmatched_parent_event (c : dcfg) (s : src) (ev : event) : bool :=
  match s with SParent => negb (d_cares c (ev_obj ev)) | SChild => false end.

(* ====================== related objects ====================== *)
(* "any change to an object selected by its customize rules": the states of the
   related object the event carries (an update: before and after) *)
Definition ev_states (ev : event) : list json :=
  match ev with
  | EAdd o => [o]
  | EUpdate old cur => [old; cur]
  | EDelete o => [o]
  | EDeleteTombstone _ o => [o]
  end.

Definition related_affects (c : rcfg) (a : answers) (ev : event) (p : json) : bool :=
  negb (is_resync ev) && parent_selects_related c a (ev_states ev) p.
