(* ApplyLaws.v — the laws of property C05 as executable predicates over
   (observed, last-applied, desired, result). The same constants are used in
   the theorems (about the model's result) and in the correspondence check
   (about the implementation's result). *)
From MC Require Import Generated.
From MC Require Export Model.Apply.

Definition all_objs (l : list json) : bool :=
  forallb (fun j => match j with JObj _ => true | _ => false end) l.

Definition keys_of (key : string) (l : list json) : list string :=
  flat_map (fun it => match item_key key it with Some k => [k] | None => [] end) l.

Definition find_item (key k : string) (l : list json) : option json :=
  find (fun it => match item_key key it with Some k' => String.eqb k k' | None => false end) l.

Definition find_item_or_null key k l := match find_item key k l with Some v => v | None => JNull end.

(* ---- containment: every field present in desired has the desired value ---- *)
Fixpoint containsb (d r : json) {struct d} : bool :=
  match d with
  | JNull => is_null r || is_container r      (* explicit null over a container: no opinion *)
  | JObj dm =>
      match r with
      | JObj rm =>
          (fix go (dm : amap) : bool :=
             match dm with
             | [] => true
             | (k, dv) :: dm' => ahas k rm && containsb dv (jget k rm) && go dm'
             end) dm
      | _ => false
      end
  | JArr dl =>
      match r with
      | JArr rl =>
          jeqb d r ||
          (all_objs rl &&
           existsb (fun key =>
             (fix go (dl : list json) : bool :=
                match dl with
                | [] => true
                | it :: dl' =>
                    match item_key key it with
                    | None => false
                    | Some k => existsb (fun it' =>
                                  match item_key key it' with
                                  | Some k' => String.eqb k k' && containsb it it'
                                  | None => false end) rl
                    end && go dl'
                end) dl) known_merge_keys)
      | _ => false
      end
  | _ => jeqb d r
  end.

(* ---- removal: what was last applied and is no longer desired is gone ---- *)
Fixpoint removedb (d o l r : json) {struct d} : bool :=
  match d, r with
  | JObj dm, JObj rm =>
      let lm := obj_or_nil l in
      let om := obj_or_nil o in
      forallb (fun k => ahas k dm || negb (ahas k rm)) (akeys lm) &&
      (fix go (dm : amap) : bool :=
         match dm with
         | [] => true
         | (k, dv) :: dm' => removedb dv (jget k om) (jget k lm) (jget k rm) && go dm'
         end) dm
  | JArr dl, JArr rl =>
      let ol := arr_or_nil o in
      let ll := arr_or_nil l in
      match o, detect_key ol ll dl with
      | JArr _, Some key =>
          forallb (fun k => mem_str k (keys_of key dl) || negb (mem_str k (keys_of key rl))) (keys_of key ll) &&
          (fix go (dl : list json) : bool :=
             match dl with
             | [] => true
             | it :: dl' =>
                 match item_key key it with
                 | Some k => removedb it (find_item_or_null key k ol) (find_item_or_null key k ll)
                                         (find_item_or_null key k rl)
                 | None => true
                 end && go dl'
             end) dl
      | _, _ => true
      end
  | _, _ => true
  end.

(* ---- preservation: everything else of the observed object stays, in order ---- *)
Fixpoint preservedb (d o l r : json) {struct d} : bool :=
  match o, r with
  | JObj om, JObj rm =>
      let lm := obj_or_nil l in
      let dm := obj_or_nil d in
      forallb (fun kv => ahas (fst kv) lm || ahas (fst kv) dm ||
                         (ahas (fst kv) rm && jeqb (jget (fst kv) rm) (snd kv))) om &&
      match d with
      | JObj dm =>
          (fix go (dm : amap) : bool :=
             match dm with
             | [] => true
             | (k, dv) :: dm' => preservedb dv (jget k om) (jget k lm) (jget k rm) && go dm'
             end) dm
      | _ => true
      end
  | JArr ol, JArr rl =>
      let ll := arr_or_nil l in
      match d with
      | JArr dl =>
          match detect_key ol ll dl with
          | Some key =>
              let ko := keys_of key ol in
              let kr := keys_of key rl in
              let kd := keys_of key dl in
              let kl := keys_of key ll in
              (* untouched observed items survive unchanged *)
              forallb (fun it => match item_key key it with
                                 | Some k => mem_str k kl || mem_str k kd ||
                                             match find_item key k rl with
                                             | Some it' => jeqb it it' | None => false end
                                 | None => true end) ol &&
              (* surviving observed items keep their relative order, new desired items follow in desired order *)
              (if nodup_str ko && nodup_str kd then
                 strs_eqb
                   kr (filter (fun k => mem_str k kr) ko ++ filter (fun k => negb (mem_str k ko)) kd)
               else true) &&
              (fix go (dl : list json) : bool :=
                 match dl with
                 | [] => true
                 | it :: dl' =>
                     match item_key key it with
                     | Some k => preservedb it (find_item_or_null key k ol) (find_item_or_null key k ll)
                                               (find_item_or_null key k rl)
                     | None => true
                     end && go dl'
                 end) dl
          | None => true
          end
      | _ => true
      end
  | _, _ => true
  end.

(* ---- type clash between desired and observed (object paths) ---- *)
Fixpoint clashb (d o : json) {struct d} : bool :=
  match o with
  | JObj om =>
      match d with
      | JObj dm => (fix go (dm : amap) : bool :=
                      match dm with
                      | [] => false
                      | (k, dv) :: dm' => clashb dv (jget k om) || go dm'
                      end) dm
      | JNull => false
      | _ => true
      end
  | JArr _ => match d with JArr _ | JNull => false | _ => true end
  | _ => false
  end.

(* ---- hypothesis H: well-formed list maps, hereditarily along desired ---- *)
Definition scalar_key (j : json) : bool :=
  match j with JStr _ | JInt _ | JBool _ => true | _ => false end.

(* (1) per conventional key, the items carrying it have pairwise distinct scalar values *)
Definition list_wf (l : list json) : bool :=
  all_objs l &&
  forallb (fun key =>
    let carrying := filter (fun it => match it with JObj m => ahas key m | _ => false end) l in
    forallb (fun it => match it with JObj m => scalar_key (jget key m) | _ => false end) carrying &&
    nodup_str (keys_of key carrying)) known_merge_keys.

(* (2) items of two lists agreeing on one conventional key agree on every one both carry *)
Definition cross_ok (l1 l2 : list json) : bool :=
  forallb (fun a => forallb (fun b =>
    match a, b with
    | JObj ma, JObj mb =>
        let both := filter (fun key => ahas key ma && ahas key mb) known_merge_keys in
        let agree := fun key => String.eqb (smk (jget key ma)) (smk (jget key mb)) in
        negb (existsb agree both) || forallb agree both
    | _, _ => true end) l2) l1.

(* desired is self-consistent: every list of objects inside it, at any depth,
   satisfies (1) — needed because a list that was replaced wholesale is
   re-examined on its own by the next apply *)
Fixpoint self_wf (d : json) : bool :=
  match d with
  | JObj dm =>
      nodup_str (akeys dm) &&
      (fix go (dm : amap) : bool :=
         match dm with [] => true | (_, v) :: dm' => self_wf v && go dm' end) dm
  | JArr dl =>
      (if all_objs dl then list_wf dl else true) &&
      (fix go (dl : list json) : bool :=
         match dl with [] => true | v :: dl' => self_wf v && go dl' end) dl
  | _ => true
  end.

Fixpoint Hb' (d o l : json) {struct d} : bool :=
  match d with
  | JObj dm =>
      let om := obj_or_nil o in
      let lm := obj_or_nil l in
      nodup_str (akeys dm) &&
      (fix go (dm : amap) : bool :=
         match dm with
         | [] => true
         | (k, dv) :: dm' => Hb' dv (jget k om) (jget k lm) && go dm'
         end) dm
  | JArr dl =>
      let ol := arr_or_nil o in
      let ll := arr_or_nil l in
      match detect_key ol ll dl with
      | None => true
      | Some key =>
          list_wf ol && list_wf ll && list_wf dl &&
          cross_ok ol dl && cross_ok ol ll && cross_ok ll dl &&
          (fix go (dl : list json) : bool :=
             match dl with
             | [] => true
             | it :: dl' =>
                 match item_key key it with
                 | Some k => Hb' it (find_item_or_null key k ol) (find_item_or_null key k ll)
                 | None => true
                 end && go dl'
             end) dl
      end
  | _ => true
  end.

Definition Hb (d o l : json) : bool := self_wf d && Hb' d o l.

(* condition (1) alone (what the property's own quantifier states: list maps
   with unique keys); Hb adds the cross-list consistency (2) *)
Fixpoint H1b' (d o l : json) {struct d} : bool :=
  match d with
  | JObj dm =>
      let om := obj_or_nil o in
      let lm := obj_or_nil l in
      nodup_str (akeys dm) &&
      (fix go (dm : amap) : bool :=
         match dm with
         | [] => true
         | (k, dv) :: dm' => H1b' dv (jget k om) (jget k lm) && go dm'
         end) dm
  | JArr dl =>
      let ol := arr_or_nil o in
      let ll := arr_or_nil l in
      match detect_key ol ll dl with
      | None => true
      | Some key =>
          list_wf ol && list_wf ll && list_wf dl &&
          (fix go (dl : list json) : bool :=
             match dl with
             | [] => true
             | it :: dl' =>
                 match item_key key it with
                 | Some k => H1b' it (find_item_or_null key k ol) (find_item_or_null key k ll)
                 | None => true
                 end && go dl'
             end) dl
      end
  | _ => true
  end.
Definition H1b (d o l : json) : bool := self_wf d && H1b' d o l.

(* an explicit null in desired does not face an observed list map (there the
   first apply leaves [] and the second null) *)
Fixpoint null_okb (d o l : json) {struct d} : bool :=
  match d with
  | JObj dm =>
      let om := obj_or_nil o in
      let lm := obj_or_nil l in
      (fix go (dm : amap) : bool :=
         match dm with
         | [] => true
         | (k, dv) :: dm' => null_okb dv (jget k om) (jget k lm) && go dm'
         end) dm
  | JArr dl =>
      let ol := arr_or_nil o in
      let ll := arr_or_nil l in
      match detect_key ol ll dl with
      | None => true
      | Some key =>
          (fix go (dl : list json) : bool :=
             match dl with
             | [] => true
             | it :: dl' =>
                 match item_key key it with
                 | Some k => null_okb it (find_item_or_null key k ol) (find_item_or_null key k ll)
                 | None => true
                 end && go dl'
             end) dl
      end
  | JNull =>
      match o with
      | JArr ol => match detect_key ol (arr_or_nil l) [] with None => true | Some _ => false end
      | _ => true
      end
  | _ => true
  end.
