(* Customize.v — pkg/controller/common/customize/manager.go: the customize
   hook, its response cache, GetRelatedObjects, matchesRelatedRule, and the
   composite sync with the related phase filled in. *)
From MC Require Import Generated.
From MC Require Export Model.Rolling.
Local Open Scope list_scope.

(* ---------- v1alpha1.RelatedResourceRule ---------- *)
Record rule := mkRule {
  r_api_version : string;
  r_resource : string;
  r_selector : option label_selector;   (* None = nil pointer (absent or null) *)
  r_namespace : string;
  r_names : list string
}.

(* ---------- decoding the CustomizeHookResponse (sigs.k8s.io/json, loose mode) ----------
   null into a string / slice / map / pointer leaves the zero value; a JSON value
   of the wrong type is an error; unknown fields are ignored. *)
Definition dec_str (j : json) : option string :=
  match j with JNull => Some "" | JStr s => Some s | _ => None end.

Definition dec_strs (j : json) : option (list string) :=
  match j with
  | JNull => Some []
  | JArr l => all_some (map dec_str l)
  | _ => None
  end.

Definition dec_req (j : json) : option sel_req :=
  match j with
  | JNull => Some (mkReq "" OpUnknown [])
  | JObj m =>
      match dec_str (jget "key" m), dec_str (jget "operator" m), dec_strs (jget "values" m) with
      | Some k, Some o, Some vs => Some (mkReq k (op_of_string o) vs)
      | _, _, _ => None
      end
  | _ => None
  end.

(* Some None = nil selector *)
Definition dec_selector (j : json) : option (option label_selector) :=
  match j with
  | JNull => Some None
  | JObj m =>
      let ml := match jget "matchLabels" m with
                | JNull => Some []
                | JObj lm => all_some (map (fun kv => match dec_str (snd kv) with
                                                      | Some s => Some (fst kv, s) | None => None end) lm)
                | _ => None end in
      let me := match jget "matchExpressions" m with
                | JNull => Some []
                | JArr l => all_some (map dec_req l)
                | _ => None end in
      match ml, me with Some a, Some b => Some (Some (mkSel a b)) | _, _ => None end
  | _ => None
  end.

(* Some None = a null entry: a nil *RelatedResourceRule *)
Definition dec_rule (j : json) : option (option rule) :=
  match j with
  | JNull => Some None
  | JObj m =>
      match dec_str (jget "apiVersion" m), dec_str (jget "resource" m), dec_selector (jget "labelSelector" m),
            dec_str (jget "namespace" m), dec_strs (jget "names" m) with
      | Some av, Some rs, Some ls, Some ns, Some names => Some (Some (mkRule av rs ls ns names))
      | _, _, _, _, _ => None
      end
  | _ => None
  end.

(* None = decode error *)
Definition decode_customize (j : json) : option (list (option rule)) :=
  match j with
  | JNull => Some []
  | JObj m =>
      match jget "relatedResources" m with
      | JNull => Some []
      | JArr l => all_some (map dec_rule l)
      | _ => None
      end
  | _ => None
  end.

(* ---------- determineSelectionType ---------- *)
Inductive sel_type := SelLabels | SelNamesNs | SelInvalid.

Definition has_ns_or_names (r : rule) : bool :=
  negb (String.eqb (r_namespace r) "") || negb (Nat.eqb (List.length (r_names r)) 0).

Definition selection_type (r : rule) : sel_type :=
  let has_ls := match r_selector r with Some _ => true | None => false end in
  if has_ls && has_ns_or_names r then SelInvalid
  else if has_ns_or_names r then SelNamesNs
  else SelLabels.

(* toSelector: a nil selector selects everything *)
Definition to_selector (ls : option label_selector) : option selector :=
  match ls with None => Some sel_everything | Some _ => as_selector ls end.

(* dynClient.Resource(apiVersion, resource): discovery *)
Definition lookup_res (c : ccfg) (apiVersion resource : string) : option child_cfg :=
  find (fun k => String.eqb (ch_api_version k) apiVersion && String.eqb (ch_resource k) resource) (known c).

(* Lister().Namespace(ns).List: the empty namespace lists everything *)
Definition list_ns (ns : string) (objs : list json) : list json :=
  if String.eqb ns "" then objs else filter (fun o => String.eqb (get_ns o) ns) objs.

(* ---------- GetRelatedObjects, one rule ---------- *)
Definition insert_all (kc : child_cfg) (objs : list json) (m : umap) : umap :=
  fold_left (fun m o => uinsert o m) objs (uinit (ch_api_version kc) (ch_kind kc) m).

(* which cached objects one rule takes *)
Definition rule_objects (c : ccfg) (parent : json) (r : rule) (objs : list json) : option (list json) :=
  match selection_type r with
  | SelLabels =>
      match to_selector (r_selector r) with
      | None => None
      | Some sel =>
          Some (filter (fun o => sel_matches sel (get_labels o))
                       (if p_namespaced c then list_ns (get_ns parent) objs else objs))
      end
  | SelNamesNs =>
      if p_namespaced c && negb (String.eqb (r_namespace r) "") && negb (String.eqb (get_ns parent) (r_namespace r))
      then None
      else
        let all := list_ns (r_namespace r) objs in
        Some (match r_names r with
              | [] => all
              | names => filter (fun o => mem_str (get_name o) names) all
              end)
  | SelInvalid => None
  end.

Definition related_step (c : ccfg) (k : cache) (parent : json) (m : umap) (r : rule) : option umap :=
  match lookup_res c (r_api_version r) (r_resource r) with
  | None => None
  | Some kc =>
      match rule_objects c parent r (cached k (ch_res kc)) with
      | None => None
      | Some sel => Some (insert_all kc sel m)
      end
  end.

(* the loop over the rules; a nil rule is refused (an error, before any client is looked up) *)
Fixpoint related_fold (c : ccfg) (k : cache) (parent : json) (rules : list (option rule)) (m : umap) : res umap :=
  match rules with
  | [] => Ok m
  | None :: _ => Err
  | Some r :: rest =>
      match related_step c k parent m r with
      | None => Err
      | Some m' => related_fold c k parent rest m'
      end
  end.

Definition get_related_objects (c : ccfg) (k : cache) (parent : json) (rules : list (option rule)) : res umap :=
  related_fold c k parent rules [].

(* ---------- matchesRelatedRule ---------- *)
Definition matches_related_rule (parent_namespaced : bool) (parent related : json) (r : option rule) (kind : string)
  : res bool :=
  match r with
  | None => Panic        (* nil dereference; not reachable from GetRelatedObjects / findRelatedParents *)
  | Some r =>
      if negb (String.eqb (get_api_version related) (r_api_version r) && String.eqb (get_kind related) kind)
      then Ok false else
      match selection_type r with
      | SelLabels =>
          match to_selector (r_selector r) with
          | None => Err
          | Some sel => Ok (sel_matches sel (get_labels related))
          end
      | SelNamesNs =>
          if parent_namespaced then
            if negb (String.eqb (r_namespace r) "") && negb (String.eqb (get_ns parent) (r_namespace r)) then Err
            else if negb (String.eqb (get_ns parent) (get_ns related)) then Ok false
            else match r_names r with
                 | [] => Ok true
                 | names => Ok (mem_str (get_name related) names)
                 end
          else if negb (String.eqb (r_namespace r) "") && negb (String.eqb (get_ns related) (r_namespace r)) then Ok false
          else match r_names r with
               | [] => Ok true
               | names => Ok (mem_str (get_name related) names)
               end
      | SelInvalid => Err
      end
  end.

(* findRelatedParents, for one parent: nil rules are skipped, rules of unknown resources and
   rules whose evaluation fails are skipped (logged), the first match wins *)
Definition parent_woken_by (c : ccfg) (parent : json) (rules : list (option rule)) (related : list json) : bool :=
  existsb (fun x =>
    match x with
    | None => false
    | Some r =>
        match lookup_res c (r_api_version r) (r_resource r) with
        | None => false
        | Some kc =>
            existsb (fun o => match matches_related_rule (p_namespaced c) parent o (Some r) (ch_kind kc) with
                              | Ok true => true | _ => false end) related
        end
    end) rules.

(* onRelatedUpdate: the parents interested in the old state or in the new state are notified *)
Definition woken_by_update (c : ccfg) (parent : json) (rules : list (option rule)) (old new : json) : bool :=
  parent_woken_by c parent rules [old; new].

(* ---------- the response cache (sequential view; entries live 20 minutes) ---------- *)
Definition ckey := (string * Z)%type.        (* parent UID, parent generation *)
Definition ckey_eqb (a b : ckey) : bool := String.eqb (fst a) (fst b) && Z.eqb (snd a) (snd b).
Definition ccache := list (ckey * list (option rule)).

Definition customize_lookup (cc : ccache) (key : ckey) : option (list (option rule)) :=
  match find (fun p => ckey_eqb (fst p) key) cc with Some p => Some (snd p) | None => None end.

(* Set replaces *)
Definition customize_store (cc : ccache) (key : ckey) (rules : list (option rule)) : ccache :=
  (key, rules) :: filter (fun p => negb (ckey_eqb (fst p) key)) cc.

Definition parent_key (parent : json) : ckey := (get_uid parent, get_generation parent).

(* ---------- GetRelatedObjects with the hook ---------- *)
Inductive rel_result :=
| RelOk (m : umap)
| RelErr
| RelPanic
| Rel429 (after : Z).

Definition rel_of_res (r : res umap) : rel_result :=
  match r with Ok m => RelOk m | Err => RelErr | Panic => RelPanic end.

(* the request as compared by the harness: the controller field is not modelled *)
Definition customize_request (parent : json) : json := JObj [("parent", parent)].

Definition related_phase_c (c : ccfg) (cc : ccache) (k : cache) (parent : json) : prog (rel_result * ccache) :=
  if negb (has_customize c) then Ret (RelOk [], cc) else
  match customize_lookup cc (parent_key parent) with
  | Some rules => Ret (rel_of_res (get_related_objects c k parent rules), cc)
  | None =>
      Do (CHook HCustomize (customize_request parent))
         (fun a => match a with
                   | AHook body =>
                       match decode_customize body with
                       | None => Ret (RelErr, cc)
                       | Some rules =>
                           Ret (rel_of_res (get_related_objects c k parent rules),
                                customize_store cc (parent_key parent) rules)
                       end
                   | AHook429 n => Ret (Rel429 n, cc)
                   | _ => Ret (RelErr, cc)
                   end)
  end.

(* ---------- the composite sync with the customize hook ---------- *)
(* everything after the children were claimed *)
Definition sync_tail_c (c : ccfg) (cc : ccache) (k : cache) (parent : json) (observed : umap)
  : prog (sync_result * ccache) :=
  '(rel, cc') <~ related_phase_c c cc k parent ;;
  match rel with
  | RelErr => Ret (SErr, cc')
  | RelPanic => Ret (SPanic, cc')
  | Rel429 n => Ret (SRequeue n, cc')
  | RelOk related =>
      hr <~ hook_phase_rolling c k parent observed related ;;
      match hr with
      | HRNone | HRErr => Ret (SErr, cc')
      | HR429 n => Ret (SRequeue n, cc')
      | HRResp r => sr <~ finish_sync c parent observed r ;; Ret (sr, cc')
      end
  end.

(* syncParentObject: the skeleton of Rolling.sync_parent_object_r *)
Definition sync_c (c : ccfg) (cc : ccache) (k : cache) (parent : json) : prog (sync_result * ccache) :=
  if ignores_parent c parent then Ret (SDone, cc) else
  fr <~ sync_finalizer c parent ;;
  match fr with
  | RErr _ => Ret (SErr, cc)
  | ROk parent =>
      if ignores_parent c parent then Ret (SDone, cc) else
      oc <~ claim_children c k parent ;;
      match oc with
      | None => Ret (SErr, cc)
      | Some observed => sync_tail_c c cc k parent observed
      end
  end.

Definition sync_cc (c : ccfg) (cc : ccache) (k : cache) : prog (sync_result * ccache) :=
  match k_parent k with
  | None => Ret (SDone, cc)
  | Some parent => sync_c c cc k parent
  end.

(* several GetRelatedObjects calls on one manager, one after the other *)
Fixpoint related_seq (c : ccfg) (cc : ccache) (steps : list (cache * json)) : prog (list rel_result * ccache) :=
  match steps with
  | [] => Ret ([], cc)
  | (k, parent) :: rest =>
      '(r, cc') <~ related_phase_c c cc k parent ;;
      '(rs, cc'') <~ related_seq c cc' rest ;;
      Ret (r :: rs, cc'')
  end.
