(* Obj.v — Kubernetes objects as plain json, with the lenient accessors of
   k8s.io/apimachinery unstructured.Unstructured. *)
From MC Require Export Model.Json.

Definition nested_string (m : amap) (path : list string) : string :=
  match nested_get m path with NFound (JStr s) => s | _ => "" end.

Definition obj_map (o : json) : amap := match o with JObj m => m | _ => [] end.

Definition get_api_version (o : json) : string := nested_string (obj_map o) ["apiVersion"].
Definition get_kind (o : json) : string := nested_string (obj_map o) ["kind"].
Definition get_name (o : json) : string := nested_string (obj_map o) ["metadata"; "name"].
Definition get_ns (o : json) : string := nested_string (obj_map o) ["metadata"; "namespace"].
Definition get_uid (o : json) : string := nested_string (obj_map o) ["metadata"; "uid"].
Definition get_rv (o : json) : string := nested_string (obj_map o) ["metadata"; "resourceVersion"].
(* GetDeletionTimestamp() != nil : the field holds a (valid) time string *)
Definition is_deleting (o : json) : bool :=
  negb (String.eqb (nested_string (obj_map o) ["metadata"; "deletionTimestamp"]) "").
Definition get_generation (o : json) : Z :=
  match nested_get (obj_map o) ["metadata"; "generation"] with NFound (JInt z) => z | _ => 0%Z end.

(* NestedStringMap with errors swallowed: nil unless every value is a string *)
Definition string_map_at (o : json) (path : list string) : option (list (string * string)) :=
  match nested_get (obj_map o) path with
  | NFound (JObj m) =>
      if forallb (fun kv => match snd kv with JStr _ => true | _ => false end) m
      then Some (map (fun kv => (fst kv, match snd kv with JStr s => s | _ => "" end)) m)
      else None
  | _ => None
  end.

Definition smap := list (string * string).
Definition get_labels (o : json) : smap :=
  match string_map_at o ["metadata"; "labels"] with Some m => m | None => [] end.

Fixpoint slookup (k : string) (m : smap) : option string :=
  match m with [] => None | (k', v) :: m' => if String.eqb k k' then Some v else slookup k m' end.

(* annotations may hold the last-applied record (JText); for selection
   purposes only plain strings matter *)
Definition get_annotation (o : json) (k : string) : option json :=
  match nested_get (obj_map o) ["metadata"; "annotations"] with
  | NFound (JObj m) =>
      if forallb (fun kv => match snd kv with JStr _ | JText _ => true | _ => false end) m
      then alookup k m else None
  | _ => None
  end.

(* NestedStringSlice with errors swallowed *)
Definition get_finalizers (o : json) : list string :=
  match nested_get (obj_map o) ["metadata"; "finalizers"] with
  | NFound (JArr l) =>
      if forallb (fun j => match j with JStr _ => true | _ => false end) l
      then map (fun j => match j with JStr s => s | _ => "" end) l else []
  | _ => []
  end.

Definition has_finalizer (o : json) (f : string) : bool := mem_str f (get_finalizers o).

(* ---- owner references ---- *)
Record oref := mkOref {
  or_api_version : string; or_kind : string; or_name : string; or_uid : string;
  or_controller : option bool; or_block : option bool }.

Definition opt_bool (m : amap) (k : string) : option bool :=
  match alookup k m with Some (JBool b) => Some b | _ => None end.

Definition oref_of_json (j : json) : option oref :=
  match j with
  | JObj m => Some (mkOref (nested_string m ["apiVersion"]) (nested_string m ["kind"])
                           (nested_string m ["name"]) (nested_string m ["uid"])
                           (opt_bool m "controller") (opt_bool m "blockOwnerDeletion"))
  | _ => None
  end.

Fixpoint all_some {A} (l : list (option A)) : option (list A) :=
  match l with
  | [] => Some []
  | Some a :: l' => match all_some l' with Some r => Some (a :: r) | None => None end
  | None :: _ => None
  end.

(* GetOwnerReferences: nil if the field is not a list of objects *)
Definition get_owner_refs (o : json) : list oref :=
  match nested_get (obj_map o) ["metadata"; "ownerReferences"] with
  | NFound (JArr l) => match all_some (map oref_of_json l) with Some r => r | None => [] end
  | _ => []
  end.

(* runtime.DefaultUnstructuredConverter.ToUnstructured(&OwnerReference) *)
Definition json_of_oref (r : oref) : json :=
  JObj ([("apiVersion", JStr (or_api_version r))] ++
        match or_block r with Some b => [("blockOwnerDeletion", JBool b)] | None => [] end ++
        match or_controller r with Some b => [("controller", JBool b)] | None => [] end ++
        [("kind", JStr (or_kind r)); ("name", JStr (or_name r)); ("uid", JStr (or_uid r))]).

(* SetOwnerReferences (non-nil slice): silently nothing if metadata is not a map *)
Definition set_owner_refs (o : json) (refs : list oref) : json :=
  match o with
  | JObj m => match nested_set m ["metadata"; "ownerReferences"] (JArr (map json_of_oref refs)) with
              | Some m' => JObj m' | None => o end
  | _ => o
  end.

(* metav1.GetControllerOf: the first reference with controller == true *)
Definition controller_of (o : json) : option oref :=
  find (fun r => match or_controller r with Some true => true | _ => false end) (get_owner_refs o).

Definition controlled_by (o : json) (uid : string) : bool :=
  match controller_of o with Some r => String.eqb (or_uid r) uid | None => false end.

(* addOwnerReference / removeOwnerReference (pkg/dynamic/controllerref) *)
Fixpoint add_owner_ref_aux (l : list oref) (add : oref) (found : bool) : list oref :=
  match l with
  | [] => if found then [] else [add]
  | r :: l' => if String.eqb (or_uid r) (or_uid add)
               then add :: add_owner_ref_aux l' add true
               else r :: add_owner_ref_aux l' add found
  end.
Definition add_owner_ref (l : list oref) (add : oref) : list oref := add_owner_ref_aux l add false.
Definition remove_owner_ref (l : list oref) (uid : string) : list oref :=
  filter (fun r => negb (String.eqb (or_uid r) uid)) l.

(* the controller reference written by adopt and MakeControllerRef *)
Definition controller_ref (apiVersion kind name uid : string) : oref :=
  mkOref apiVersion kind name uid (Some true) (Some true).

(* group of an apiVersion: ParseAPIVersion / schema.ParseGroupVersion *)
Fixpoint split_at (c : ascii) (s : string) : option (string * string) :=
  match s with
  | EmptyString => None
  | String a s' => if Ascii.eqb a c then Some (EmptyString, s')
                   else match split_at c s' with
                        | Some (x, y) => Some (String a x, y) | None => None end
  end.
Definition slash : ascii := "/"%char.
Definition group_of (apiVersion : string) : string :=
  match split_at slash apiVersion with Some (g, _) => g | None => "" end.
Definition version_of (apiVersion : string) : string :=
  match split_at slash apiVersion with Some (_, v) => v | None => apiVersion end.
