(* DecoratorPreds.v — property C16 as executable predicates over one recorded
   round of a decorator sync: the calls made, the answers received, and the
   state of the addressed object before and after each accepted request (the
   same [ev] record as Model/TracePreds.v).  Every predicate answers None
   (holds) or Some clause (the first violated clause). *)
From MC Require Import Generated.
From MC Require Export Model.TracePreds Model.Decorator.
Local Open Scope list_scope.

(* ---------- which requests address the decorated object ---------- *)
Definition targets_d (c : dcfg) (parent : json) (q : req) : bool :=
  match client_rule c parent with
  | Some rl => String.eqb (q_res q) (rl_res rl) && String.eqb (q_name q) (get_name parent) &&
               String.eqb (q_ns q) (eff_ns (rl_namespaced rl) (get_ns parent))
  | None => false
  end.

Definition target_has_status (c : dcfg) (parent : json) : bool :=
  match client_rule c parent with Some rl => rl_has_status rl | None => false end.

(* the hook exchange of the round: kind, request body, decoded answer as the
   controller uses it (null entries dropped, namespaces defaulted) *)
Definition round_hook_d (evs : list ev) : option (hook_kind * json * dresp) :=
  match hook_events evs with
  | e :: _ =>
      match e_call e, e_ans e with
      | CHook hk body, AHook ans =>
          match decode_decorator ans with
          | Some r =>
              let pns := get_ns (jget "object" (obj_map body)) in
              Some (hk, body, mkDR (dr_labels r) (dr_annotations r) (dr_status r)
                                   (map (default_ns pns) (filter opt_is_some (dr_attachments r)))
                                   (dr_resync r) (dr_finalized r))
          | None => None end
      | _, _ => None
      end
  | [] => None
  end.

(* the object the hook was asked about *)
Definition sent_object (evs : list ev) : option json :=
  match hook_events evs with
  | e :: _ => match e_call e with CHook _ body => Some (jget "object" (obj_map body)) | _ => None end
  | [] => None
  end.

(* state after an accepted request: an object whose last finalizer went away is
   gone from the store; what it became is the object the server returned *)
Definition post_state (e : ev) : json :=
  if is_null (e_post e) then match e_ans e with AObj o => o | _ => JNull end else e_post e.

(* ---------- clause 1: what an accepted write may change on the target ---------- *)
Definition mkeys {A} (m : list (string * A)) : list string := map fst m.

(* the two string maps agree on every key outside [named] *)
Definition smap_agree_outside (named : list string) (a b : smap) : bool :=
  forallb (fun k => mem_str k named ||
                    match slookup k a, slookup k b with
                    | Some x, Some y => String.eqb x y
                    | None, None => true
                    | _, _ => false end) (mkeys a ++ mkeys b).

Definition without_fin (f : string) (o : json) : list string :=
  filter (fun x => negb (String.eqb x f)) (get_finalizers o).

Definition meta_map (o : json) : amap :=
  match jget "metadata" (obj_map o) with JObj m => m | _ => [] end.

Definition other_metadata (o : json) : json :=
  JObj (aremove "labels" (aremove "annotations" (aremove "finalizers" (aremove "resourceVersion" (meta_map o))))).

Definition other_fields (o : json) : json :=
  JObj (aremove "metadata" (aremove "status" (obj_map o))).

Definition target_diff_clause (fin : string) (named_l named_a : list string) (pre post : json) : option string :=
  if negb (jeqb (jget "spec" (obj_map pre)) (jget "spec" (obj_map post))) then Some "spec-changed" else
  if negb (jeqb (other_fields pre) (other_fields post)) then Some "other-field-changed" else
  if negb (smap_agree_outside named_l (get_labels pre) (get_labels post)) then Some "foreign-label-changed" else
  if negb (smap_agree_outside named_a (annots_of pre) (annots_of post)) then Some "foreign-annotation-changed" else
  if negb (strs_eqb (without_fin fin pre) (without_fin fin post)) then Some "foreign-finalizer-changed" else
  if negb (jeqb (other_metadata pre) (other_metadata post)) then Some "other-metadata-changed" else
  None.

Definition is_target_write (c : dcfg) (parent : json) (e : ev) : bool :=
  match is_api e with Some q => is_write q && targets_d c parent q | None => false end.

Definition C16_target_diff (c : dcfg) (parent : json) (evs : list ev) : option string :=
  let fin := d_finalizer_name c in
  let '(nl, na) := match round_hook_d evs with
                   | Some (_, _, r) => (mkeys (dr_labels r), mkeys (dr_annotations r))
                   | None => ([], []) end in
  let check := fun (nl na : list string) (e : ev) =>
    if is_target_write c parent e && accepted e then
      match is_api e with
      | Some q =>
          match q_verb q with
          | VUpdate | VUpdateStatus => target_diff_clause fin nl na (e_pre e) (post_state e)
          | _ => Some "target-written-with-unexpected-verb"
          end
      | None => None
      end
    else None in
  match first_some (check [] []) (before_hook evs) with
  | Some s => Some s
  | None => first_some (check nl na) (after_hook evs)
  end.

(* ---------- clause 2: named keys end up as named; null deletes ---------- *)
Definition orelse_s (a b : option string) : option string := match a with Some s => Some s | None => b end.

Definition named_as_asked (upd : list (string * option string)) (m : smap) : option string :=
  first_some (fun kv => match snd kv, slookup (fst kv) m with
                        | None, Some _ => Some "null-key-not-deleted"
                        | None, None => None
                        | Some v, Some w => if String.eqb v w then None else Some "named-key-has-other-value"
                        | Some _, None => Some "named-key-missing"
                        end) upd.

Definition is_target_verb (c : dcfg) (parent : json) (v : verb) (e : ev) : bool :=
  match is_api e with Some q => verb_eqb (q_verb q) v && targets_d c parent q | None => false end.

Definition C16_null_deletes_unnamed_stay (c : dcfg) (parent : json) (evs : list ev) : option string :=
  match round_hook_d evs with
  | None => None
  | Some (_, _, r) =>
      first_some (fun e =>
        if is_target_verb c parent VUpdate e && accepted e then
          let post := post_state e in
          orelse_s (named_as_asked (dr_labels r) (get_labels post))
            (orelse_s (named_as_asked (dr_annotations r) (annots_of post))
               (if smap_agree_outside (mkeys (dr_labels r)) (get_labels (e_pre e)) (get_labels post) &&
                   smap_agree_outside (mkeys (dr_annotations r)) (annots_of (e_pre e)) (annots_of post)
                then None else Some "unnamed-key-changed"))
        else None) (after_hook evs)
  end.

(* ---------- clause 3: status ---------- *)
(* a missing status and a null status are the same thing to every reader *)
Definition status_of (o : json) : json := jget "status" (obj_map o).

Definition C16_status_null_untouched (c : dcfg) (parent : json) (evs : list ev) : option string :=
  match round_hook_d evs with
  | None => None
  | Some (_, _, r) =>
      first_some (fun e =>
        if negb (is_target_write c parent e) then None else
        if is_null (dr_status r) then
          if is_target_verb c parent VUpdateStatus e then Some "status-request-despite-null-status" else
          if accepted e && negb (jeqb (status_of (e_pre e)) (status_of (post_state e)))
          then Some "status-changed-despite-null-status" else None
        else
          (* a status was named: the write that carries it leaves exactly that status *)
          let carries := if target_has_status c parent then is_target_verb c parent VUpdateStatus e
                         else is_target_verb c parent VUpdate e in
          if carries && accepted e && negb (jeqb (status_of (post_state e)) (dr_status r))
          then Some "status-not-as-in-response" else
          if negb carries && accepted e && negb (jeqb (status_of (e_pre e)) (status_of (post_state e)))
          then Some "status-changed-by-metadata-write" else None)
        (after_hook evs)
  end.

(* ---------- clause 4: no request when nothing would change ---------- *)
(* the response, read against the object the hook was asked about, asks for nothing *)
Definition map_is_noop (upd : list (string * option string)) (m : smap) : bool :=
  forallb (fun kv => match snd kv, slookup (fst kv) m with
                     | None, None => true
                     | Some v, Some w => String.eqb v w
                     | _, _ => false end) upd.

Definition resp_is_noop (c : dcfg) (sent : json) (r : dresp) : bool :=
  map_is_noop (dr_labels r) (get_labels sent) &&
  map_is_noop (dr_annotations r) (annots_of sent) &&
  (is_null (dr_status r) ||
   match status_map sent with Some st => jeqb st (dr_status r) | None => false end) &&
  negb (dr_finalized r && has_finalizer sent (d_finalizer_name c)).

Definition C16_no_request_when_unchanged (c : dcfg) (parent : json) (evs : list ev) : option string :=
  match round_hook_d evs with
  | None => None
  | Some (_, body, r) =>
      let sent := jget "object" (obj_map body) in
      if resp_is_noop c sent r && existsb (is_target_write c parent) (after_hook evs)
      then Some "request-although-nothing-changes" else None
  end.

(* ---------- clause 5: only selected objects (or finalizer holders) are decorated ---------- *)
Definition is_activity (e : ev) : bool :=
  match e_call e with
  | CHook _ _ => true
  | CApi q => is_write q
  end.

(* the sync hook is only ever asked about an object that satisfies both selectors
   of its rule: a finalizer holder that no longer matches gets the finalize hook
   (or nothing, when the controller has none) *)
Definition sync_hook_unselected (c : dcfg) (e : ev) : bool :=
  match e_call e with
  | CHook HSync body =>
      let s := jget "object" (obj_map body) in
      match rule_for c s with
      | None => true
      | Some rl => negb (sel_matches (rl_label_sel rl) (get_labels s) && sel_matches (rl_annot_sel rl) (annots_of s))
      end
  | _ => false
  end.

Definition C16_selected_only (c : dcfg) (k : dcache) (evs : list ev) : option string :=
  if existsb (sync_hook_unselected c) evs then Some "sync-hook-called-for-unselected-object" else
  if negb (existsb is_activity evs) then None else
  match target_of c k with
  | None => Some "activity-without-cached-target"
  | Some t =>
      match rule_for c t with
      | None => if has_finalizer t (d_finalizer_name c) then None else Some "target-of-kind-without-rule-touched"
      | Some rl =>
          if has_finalizer t (d_finalizer_name c) then None else
          if negb (sel_matches (rl_label_sel rl) (get_labels t)) then Some "label-selector-not-satisfied" else
          if negb (sel_matches (rl_annot_sel rl) (annots_of t)) then Some "annotation-selector-not-satisfied" else
          None
      end
  end.

(* ---------- clause 6: attachments = controller reference to the target + own marker ---------- *)
Definition expected_attachments (c : dcfg) (k : dcache) (sent : json) : json :=
  let pns := get_ns sent in
  JObj (fold_left (fun acc kc =>
          aset (gvk_text (ch_api_version kc) (ch_kind kc))
               (JObj (fold_left (fun m o => aset (relative_name pns o) o m)
                                (filter (fun o => visible_d sent o && controlled_by o (get_uid sent) && has_marker c o)
                                        (cached_d k (ch_res kc))) []))
               acc) (dc_attachments c) []).

Definition known_of_res (c : dcfg) (res : string) : option child_cfg :=
  find (fun kc => String.eqb (ch_res kc) res) (dc_known c).

Definition find_cached_d (c : dcfg) (k : dcache) (q : req) : option json :=
  match known_of_res c (q_res q) with
  | None => None
  | Some kc =>
      find (fun o => String.eqb (get_name o) (q_name q) &&
                     String.eqb (eff_ns (ch_namespaced kc) (get_ns o)) (q_ns q)) (cached_d k (q_res q))
  end.

Definition is_attachment_res (c : dcfg) (res : string) : bool :=
  existsb (fun kc => String.eqb (ch_res kc) res) (dc_attachments c).

Definition C16_attachments_marker (c : dcfg) (k : dcache) (parent : json) (evs : list ev) : option string :=
  match hook_events evs with
  | [] => None
  | e :: _ =>
      match e_call e with
      | CHook _ body =>
          let sent := jget "object" (obj_map body) in
          if negb (jeqb (jget "attachments" (obj_map body)) (expected_attachments c k sent))
          then Some "reported-attachments-differ-from-marked-controlled-set" else
          first_some (fun e' =>
            match is_api e' with
            | None => None
            | Some q =>
                if targets_d c parent q || negb (is_write q) then None else
                match q_verb q with
                | VCreate =>
                    if negb (has_marker c (q_body q)) then Some "attachment-created-without-marker" else
                    if negb (controlled_by (q_body q) (get_uid sent)) then Some "attachment-created-without-controller-ref" else None
                | VDelete | VUpdate =>
                    match find_cached_d c k q with
                    | None => Some "write-to-object-not-in-cache"
                    | Some o =>
                        if negb (controlled_by o (get_uid sent)) then Some "write-to-object-not-controlled-by-target" else
                        if negb (has_marker c o) then Some "write-to-object-without-own-marker" else
                        if negb (visible_d sent o) then Some "write-to-object-outside-target-namespace" else None
                    end
                | _ => Some "attachment-written-with-unexpected-verb"
                end
            end) (after_hook evs)
      | _ => None
      end
  end.

(* ---------- clause 3b: a null status in the response must not materialise as a stored null ---------- *)
(* regression guard.  Before the repair (/repo 985bceb) SetNestedField(obj, nil-map, "status") put an
   explicit null under "status" when the target had no status at all; on a resource without status
   subresource the metadata update stored it, and unstructured.NestedMap then failed on every later
   sync of that object.  The write is now skipped when there is no status to write. *)
Definition has_status_key (o : json) : bool := ahas "status" (obj_map o).

Definition C16_no_explicit_null_status (c : dcfg) (parent : json) (evs : list ev) : option string :=
  match round_hook_d evs with
  | None => None
  | Some (_, _, r) =>
      if negb (is_null (dr_status r)) then None else
      first_some (fun e =>
        if is_target_write c parent e && accepted e && negb (has_status_key (e_pre e)) && has_status_key (post_state e)
        then Some "explicit-null-status-written" else None) (after_hook evs)
  end.

(* ---------- the whole property on one round ---------- *)
Definition C16_round (c : dcfg) (k : dcache) (evs : list ev) : option string :=
  orelse_s (C16_selected_only c k evs)
    (match target_of c k with
     | None => None
     | Some t =>
         orelse_s (C16_target_diff c t evs)
           (orelse_s (C16_null_deletes_unnamed_stay c t evs)
              (orelse_s (C16_status_null_untouched c t evs)
                 (orelse_s (C16_no_request_when_unchanged c t evs)
                    (orelse_s (C16_attachments_marker c k t evs)
                       (C16_no_explicit_null_status c t evs)))))
     end).

(* ================= C06 on the decorator's attachments ================= *)
(* The composite predicates C06_event_ok / C06_complete (Model/TracePreds.v) judge the decorator's
   attachment traffic: the configuration is the composite-shaped view ManageChildren gets
   (ccfg_of: attachment rules with their update methods, discovery), the cache is the decorator's
   attachment cache with the cached target as parent. *)
Definition c06_cache (c : dcfg) (k : dcache) : cache := mkCache (target_of c k) (dk_children k).

(* the desired attachments as ManageChildren receives them: null entries dropped, namespaces defaulted
   (round_hook_d), one per apiVersion/kind/qualified name (MakeUniformObjectMap), marker stamped *)
Definition round_desired_d (c : dcfg) (evs : list ev) : option (json * dresp * list (option json)) :=
  match round_hook_d evs with
  | None => None
  | Some (_, body, r) =>
      match desired_map (dr_attachments r) [] with
      | None => None
      | Some d0 => Some (jget "object" (obj_map body), r, map Some (uobjects (stamp_all c d0)))
      end
  end.

(* ManageChildren ran to its end: the sync reported success, the target was alive or is being finalized
   by this decorator, and neither target write ended the sync early (a 404 / 409 there returns at once) *)
Definition children_managed (c : dcfg) (sent : json) (res : sync_result) (evs : list ev) : bool :=
  match res with
  | SDone =>
      (negb (is_deleting sent) || should_finalize_d c sent) &&
      forallb (fun e => negb (is_target_write c sent e) || accepted e) (after_hook evs)
  | _ => false
  end.

Definition C06d_round (c : dcfg) (k : dcache) (evs : list ev) (res : sync_result) : option string :=
  match round_desired_d c evs with
  | None => None
  | Some (sent, r, ds) =>
      let cc := ccfg_of c in
      let kc := c06_cache c k in
      orelse_s (first_some (C06_event_ok cc kc ds) (after_hook evs))
               (if children_managed c sent res evs
                then C06_complete cc kc sent (get_children_d c k sent) ds (after_hook evs)
                else None)
  end.

(* ================= C10 on the decorator: finalizer discipline ================= *)
(* the finalize hook's decoded answer said finalized: true *)
Definition answered_finalized (e : ev) : bool :=
  match e_ans e with
  | AHook ans => match decode_decorator ans with Some r => dr_finalized r | None => false end
  | _ => false
  end.

Definition is_attachment_write (c : dcfg) (t : json) (e : ev) : bool :=
  match is_api e with Some q => is_write q && negb (targets_d c t q) | None => false end.

Definition C10d_round (c : dcfg) (t : json) (evs : list ev) : option string :=
  let fin := d_finalizer_name c in
  before_each (fun seen e =>
    match e_call e with
    | CHook hk body =>
        match hk with
        | HCustomize => None
        | _ =>
            (* (a) which hook, and what it is told *)
            let p := jget "object" (obj_map body) in
            let want_fin := dc_has_finalize c && (is_deleting p || negb (d_matches c p)) in
            let flag := match jget "finalizing" (obj_map body) with JBool b => b | _ => false end in
            if negb (Bool.eqb want_fin (hook_kind_eqb hk HFinalize)) then Some "wrong-hook-chosen" else
            if negb (Bool.eqb flag want_fin) then Some "wrong-finalizing-flag" else None
        end
    | CApi q =>
        if targets_d c t q then
          match q_verb q with
          | VUpdate =>
              let adds := negb (has_finalizer (e_pre e) fin) && has_finalizer (q_body q) fin in
              let removes := accepted e && has_finalizer (e_pre e) fin && negb (has_finalizer (post_state e) fin) in
              (* (b), (d) adding *)
              if adds && negb (dc_has_finalize c) then Some "finalizer-added-without-finalize-hook" else
              if adds && is_deleting t then Some "finalizer-added-to-deleting-target" else
              if adds && accepted e && is_deleting (e_pre e) then Some "finalizer-accepted-on-deleting-target" else
              if adds && negb (d_matches c t) then Some "finalizer-added-to-unselected-target" else
              if adds && existsb (is_attachment_write c t) seen then Some "finalizer-added-after-attachment-write" else
              (* (c) removing: only after a hook answer finalized: true in this sync; without a finalize
                 hook a leftover finalizer goes unconditionally *)
              if removes && dc_has_finalize c && negb (existsb answered_finalized (hook_events seen))
              then Some "finalizer-removed-without-finalized" else None
          | _ => None
          end
        else if negb (is_write q) then None else
          match q_verb q with
          | VCreate =>
              (* the finalizer is on the target as cached, or as an earlier read or write of this sync returned it *)
              if dc_has_finalize c && negb (has_finalizer t fin) &&
                 negb (existsb (fun e' => match is_api e', e_ans e' with
                                          | Some q', AObj o => targets_d c t q' && has_finalizer o fin
                                          | _, _ => false end) seen)
              then Some "attachment-created-before-finalizer" else None
          | _ => None
          end
    end) [] evs.

(* a dying target without finalize duty (no finalize hook, finalizer already gone, or a GC finalizer present)
   has no attachment created, updated or deleted *)
Definition C10d_handoff (c : dcfg) (t : json) (evs : list ev) : option string :=
  match sent_object evs with
  | Some p =>
      if is_deleting p && negb (should_finalize_d c p) && existsb (is_attachment_write c t) (after_hook evs)
      then Some "attachments-touched-for-dying-target" else None
  | None => None
  end.

(* what a sync that reported success owes a target that holds our finalizer *)
Definition drops_finalizer (c : dcfg) (t : json) (e : ev) : bool :=
  match is_api e with
  | Some q => targets_d c t q && verb_eqb (q_verb q) VUpdate && negb (has_finalizer (q_body q) (d_finalizer_name c))
  | None => false
  end.

Definition C10d_duties (c : dcfg) (t : json) (evs : list ev) (res : sync_result) : option string :=
  let fin := d_finalizer_name c in
  match res with
  | SDone =>
      if negb (has_finalizer t fin) then None else
      if negb (dc_has_finalize c) then
        (* leftover: removed in this very sync, selected or not, alive or dying (or found gone on the fresh read) *)
        if existsb (drops_finalizer c t) evs ||
           existsb (fun e => match is_api e, e_ans e with
                             | Some q, AObj o => targets_d c t q && verb_eqb (q_verb q) VGet && negb (has_finalizer o fin)
                             | _, _ => false end) evs
        then None else Some "leftover-finalizer-not-removed"
      else
        (* with a finalize hook a finalizer holder is never ignored: a hook is called *)
        match hook_events evs with
        | [] => Some "no-hook-call-for-finalizer-holder"
        | _ =>
            match round_hook_d evs with
            | Some (_, body, r) =>
                let sent := jget "object" (obj_map body) in
                (* finalized: true is followed by the update that drops the finalizer (a 404 / 409 on the
                   status write ends the sync before it) *)
                if dr_finalized r && has_finalizer sent fin &&
                   negb (existsb (drops_finalizer c t) (after_hook evs)) &&
                   forallb (fun e => negb (is_target_write c t e) || accepted e) (after_hook evs)
                then Some "finalizer-kept-after-finalized" else None
            | None => None
            end
        end
  | _ => None
  end.

Definition C10d_prop_round (c : dcfg) (k : dcache) (evs : list ev) (res : sync_result) : option string :=
  match target_of c k with
  | None => None
  | Some t => orelse_s (C10d_round c t evs) (orelse_s (C10d_handoff c t evs) (C10d_duties c t evs res))
  end.

(* ================= C16, converse of clause 4: a response that names a change causes a request ================= *)
(* the label / annotation part of the response asks for something the object sent does not show (a new key,
   also one with the empty string as value; another value; a null for a present key), the sync went through:
   then a write to the target was sent (the status write may end the sync on a 404 / 409) *)
Definition maps_ask_change (sent : json) (r : dresp) : bool :=
  negb (map_is_noop (dr_labels r) (get_labels sent) && map_is_noop (dr_annotations r) (annots_of sent)).

Definition C16_request_when_changed (c : dcfg) (parent : json) (evs : list ev) (res : sync_result) : option string :=
  match round_hook_d evs, res with
  | Some (_, body, r), SDone =>
      let sent := jget "object" (obj_map body) in
      if maps_ask_change sent r && negb (existsb (is_target_write c parent) (after_hook evs))
      then Some "no-request-although-response-names-a-change" else None
  | _, _ => None
  end.

(* ================= C03 on the decorator: what the hook is shown ================= *)
Definition find_by_relative_name (pns n : string) (objs : list json) : option json :=
  find (fun o => String.eqb (relative_name pns o) n) objs.

Definition C03d_group (c : dcfg) (k : dcache) (sent : json) (kc : child_cfg) (shown : amap) : option string :=
  let pns := get_ns sent in
  let objs := cached_d k (ch_res kc) in
  orelse_s
    (* everything shown is a cached object that the target controls and that carries our marker *)
    (first_some (fun kv =>
       let o := snd kv in
       if negb (existsb (fun o' => jeqb o' o) objs) then Some "hook-saw-object-not-in-cache" else
       if negb (String.eqb (fst kv) (relative_name pns o)) then Some "hook-saw-object-under-wrong-name" else
       if negb (controlled_by o (get_uid sent)) then Some "hook-saw-object-it-does-not-control" else
       if negb (has_marker c o) then Some "hook-saw-object-without-own-marker" else
       if negb (visible_d sent o) then Some "hook-saw-object-outside-target-namespace" else None) shown)
    (* every such cached object is shown *)
    (first_some (fun o =>
       if visible_d sent o && controlled_by o (get_uid sent) && has_marker c o then
         match alookup (relative_name pns o) shown with
         | Some o' => if jeqb o' o then None else Some "owned-attachment-shown-with-other-content"
         | None => Some "owned-attachment-missing-from-hook"
         end
       else None) objs).

Definition C03d_round (c : dcfg) (k : dcache) (evs : list ev) : option string :=
  first_some (fun e =>
    match e_call e with
    | CHook HCustomize _ => None
    | CHook _ body =>
        let sent := jget "object" (obj_map body) in
        match jget "attachments" (obj_map body) with
        | JObj groups =>
            orelse_s
              (first_some (fun kc =>
                 match alookup (gvk_text (ch_api_version kc) (ch_kind kc)) groups with
                 | Some (JObj shown) => C03d_group c k sent kc shown
                 | _ => Some "group-missing" end) (dc_attachments c))
              (orelse_s
                 (first_some (fun g => if existsb (fun kc => String.eqb (gvk_text (ch_api_version kc) (ch_kind kc)) (fst g)) (dc_attachments c)
                                       then None else Some "group-of-undeclared-kind") groups)
                 (if jeqb (JObj groups) (expected_attachments c k sent) then None else Some "attachments-map-differs-from-marked-controlled-set"))
        | _ => Some "attachments-map-missing"
        end
    | _ => None
    end) evs.

(* ================= C12 on the decorator: the worker step ================= *)
Definition hook_failed (e : ev) : bool :=
  match e_call e, e_ans e with
  | CHook HCustomize _, _ => false
  | CHook _ _, AHook ans => match decode_decorator ans with Some _ => false | None => true end
  | CHook _ _, _ => true
  | _, _ => false
  end.

(* the documented benign races of child (attachment) management, by verb *)
Definition benign_write_failure (e : ev) : bool :=
  match is_api e, fail_class e with
  | Some q, Some cl =>
      match q_verb q with
      | VDelete => eclass_eqb cl ENotFound
      | VCreate => eclass_eqb cl EAlreadyExists
      | VUpdate | VUpdateStatus => eclass_eqb cl ENotFound || eclass_eqb cl EConflict
      | _ => false
      end
  | _, _ => true
  end.

Definition C12d_round (key : string) (evs : list ev) (res : sync_result) (qs : list (string * string * Z)) : option string :=
  match res with
  | SPanic => Some "panic"
  | _ =>
      if negb (qhas qs "Done" key) then Some "work-item-not-marked-done" else
      if qhas qs "AddRateLimited" key && qhas qs "Forget" key then Some "forgotten-and-requeued" else
      if negb (qhas qs "AddRateLimited" key) && negb (qhas qs "Forget" key) then Some "neither-requeued-nor-forgotten" else
      (* a hard failure anywhere surfaces as an error with back-off *)
      if (existsb hard_failure evs || existsb hook_failed evs) && negb (qhas qs "AddRateLimited" key)
      then Some "failure-swallowed-without-requeue" else
      if existsb (fun e => negb (benign_write_failure e)) (after_hook evs) && negb (qhas qs "AddRateLimited" key)
      then Some "non-benign-failure-swallowed-without-requeue" else
      (* resyncAfterSeconds > 0 in an accepted answer: a delayed requeue of the target, whatever follows *)
      match round_hook_d evs with
      | Some (_, body, r) =>
          if positive_number (dr_resync r) then
            let tkey := queue_key (jget "object" (obj_map body)) in
            if existsb (fun t => match t with (o, k', d) =>
                                   String.eqb o "AddAfter" && String.eqb k' tkey &&
                                   match dr_resync r with JInt z => Z.eqb d (z * 1000) | _ => Z.ltb 0 d end end) qs
            then None else Some "resync-not-enqueued-after-asked-delay"
          else if qhas qs "AddAfter" key then Some "delayed-requeue-nobody-asked-for" else None
      | None => if qhas qs "AddAfter" key then Some "delayed-requeue-nobody-asked-for" else None
      end
  end.

(* ================= C13 on the decorator: no answer panics the worker; a rejected answer causes no write ================= *)
Definition C13d_round (evs : list ev) (res : sync_result) : option string :=
  match res with
  | SPanic => Some "panic"
  | _ =>
      match hook_events evs, round_hook_d evs with
      | _ :: _, None =>
          if existsb (fun e => match is_api e with Some q => is_write q | None => false end) (after_hook evs)
          then Some "write-after-rejected-response" else None
      | _, _ => None
      end
  end.

(* ================= C01 on the decorator: convergence, no hot loop ================= *)
Definition round_obs := (dcache * list ev * sync_result)%type.

Definition quiet_round (r : round_obs) : bool :=
  match r with (_, evs, res) =>
    match res with SDone => true | _ => false end &&
    negb (existsb (fun e => match is_api e with Some q => is_write q | None => false end) evs)
  end.

(* objects of the store *)
Definition same_object (a b : json) : bool :=
  String.eqb (get_api_version a) (get_api_version b) && String.eqb (get_kind a) (get_kind b) &&
  String.eqb (get_ns a) (get_ns b) && String.eqb (get_name a) (get_name b).

Definition ours_d (c : dcfg) (t : json) (o : json) : bool :=
  controlled_by o (get_uid t) && has_marker c o.

Definition attachment_method (c : dcfg) (o : json) : string :=
  method_of (ccfg_of c) (group_of (get_api_version o)) (get_kind o).

(* desired object d is there as object o: same identity; where the strategy lets the controller bring the
   content along (every method but OnDelete) applying d to o changes nothing any more *)
(* the namespace a desired attachment lands in: its own, else the target's (for namespaced kinds) *)
Definition desired_key_matches (c : dcfg) (o d : json) : bool :=
  String.eqb (get_api_version o) (get_api_version d) && String.eqb (get_kind o) (get_kind d) &&
  String.eqb (get_name o) (get_name d) &&
  match lookup_kind (ccfg_of c) (get_api_version d) (get_kind d) with
  | Some kc => String.eqb (eff_ns (ch_namespaced kc) (get_ns d)) (get_ns o)
  | None => String.eqb (get_ns d) (get_ns o)
  end.

Definition realises_d (c : dcfg) (o d : json) : bool :=
  desired_key_matches c o d &&
  (String.eqb (attachment_method c d) method_on_delete ||
   match apply_update (obj_map o) (obj_map d) with
   | Ok n => jeqb (JObj n) o
   | _ => true
   end).

Fixpoint last_opt {A} (l : list A) : option A :=
  match l with [] => None | [a] => Some a | _ :: l' => last_opt l' end.

Fixpoint drop_until_quiet (rs : list round_obs) : option (list round_obs) :=
  match rs with
  | [] => None
  | r :: rs' => if quiet_round r then Some rs' else drop_until_quiet rs'
  end.

Definition C01d_case (c : dcfg) (rs : list round_obs) (initial final : list json) : option string :=
  match rs with
  | [] => None
  | (k0, _, _) :: _ =>
      match target_of c k0 with
      | None => None
      | Some t =>
          (* (c) what is not ours is byte for byte what it was (judged first: it does not depend on quiescence) *)
          match first_some (fun o =>
                  if same_object o t || ours_d c t o then None else
                  match find (same_object o) final with
                  | Some o' => if jeqb o o' && jeqb o' o then None else Some "foreign-object-touched"
                  | None => Some "foreign-object-touched"
                  end) initial with
          | Some w => Some w
          | None =>
          (* (a) a sync that sends no write is reached within the bound *)
          match drop_until_quiet rs with
          | None => Some "no-quiescence"
          | Some further =>
              (* (d) the further sync sends nothing either *)
              if negb (forallb quiet_round further) then Some "hot-loop" else
              (* (b) ours in the final store = the desired attachments of the last answer *)
              match last_opt rs with
              | Some (_, evs, _) =>
                  match round_desired_d c evs with
                  | Some (sent, r, ds) =>
                      let desired := flat_map (fun d => match d with Some o => [o] | None => [] end) ds in
                      let mine := filter (fun o => ours_d c t o && negb (same_object o t)) final in
                      if negb (forallb (fun d => existsb (fun o => realises_d c o d) mine) desired) ||
                         negb (forallb (fun o => is_deleting o || existsb (fun d => desired_key_matches c o d) desired) mine)
                      then Some "final-attachments-differ" else None
                  | None => None
                  end
              | None => None
              end
          end
          end
      end
  end.

(* ================= C16: a failed write of the target is tried again ================= *)
(* scenarios flagged "failed-write-then-retry": nobody else touches the store. Round i: the answer named a
   change (against the target as cached BEFORE that sync), a write to the target failed hard and none was
   accepted; round i+1: the same answer, success: then the write is sent again (a sync must not have left
   the change behind in its cache) *)
Definition same_maps (a b : dresp) : bool :=
  jeqb (JObj (map (fun kv => (fst kv, match snd kv with Some v => JStr v | None => JNull end)) (dr_labels a)))
       (JObj (map (fun kv => (fst kv, match snd kv with Some v => JStr v | None => JNull end)) (dr_labels b))) &&
  jeqb (JObj (map (fun kv => (fst kv, match snd kv with Some v => JStr v | None => JNull end)) (dr_annotations a)))
       (JObj (map (fun kv => (fst kv, match snd kv with Some v => JStr v | None => JNull end)) (dr_annotations b))).

Fixpoint C16_retry_rounds (c : dcfg) (rs : list round_obs) : option string :=
  match rs with
  | (k1, evs1, _) :: (((_, evs2, res2) :: _) as rest) =>
      let here :=
        match target_of c k1, round_hook_d evs1, round_hook_d evs2, res2 with
        | Some t, Some (_, _, a1), Some (_, _, a2), SDone =>
            if maps_ask_change t a1 && same_maps a1 a2 &&
               existsb (fun e => is_target_write c t e && hard_failure e) (after_hook evs1) &&
               negb (existsb (fun e => is_target_write c t e && accepted e) evs1) &&
               negb (existsb (is_target_write c t) (after_hook evs2))
            then Some "failed-write-not-retried" else None
        | _, _, _, _ => None
        end in
      match here with Some w => Some w | None => C16_retry_rounds c rest end
  | _ => None
  end.

(* ================= C03 on the decorator: a desired attachment without a namespace lands in the target's ================= *)
(* for a namespaced target every create / update / delete of an attachment of a namespaced kind goes to the
   target's namespace, unless the answer itself (as the hook spelt it, before any defaulting) names that
   attachment with another, non-empty namespace.  Absent, null and "" all mean "without a namespace". *)
Definition raw_attachments (evs : list ev) : list json :=
  match hook_events evs with
  | e :: _ =>
      match e_ans e with
      | AHook ans => match decode_decorator ans with
                     | Some r => flat_map (fun x => match x with Some o => [o] | None => [] end) (dr_attachments r)
                     | None => [] end
      | _ => []
      end
  | [] => []
  end.

Definition C03d_namespace_default (c : dcfg) (t : json) (evs : list ev) : option string :=
  match sent_object evs with
  | None => None
  | Some sent =>
      let pns := get_ns sent in
      if String.eqb pns "" then None else
      first_some (fun e =>
        match is_api e with
        | None => None
        | Some q =>
            if negb (is_write q) || targets_d c t q then None else
            match known_of_res c (q_res q) with
            | None => None
            | Some kc =>
                if negb (ch_namespaced kc) || String.eqb (q_ns q) pns then None else
                if existsb (fun o => String.eqb (get_api_version o) (ch_api_version kc) && String.eqb (get_kind o) (ch_kind kc) &&
                                     String.eqb (get_name o) (q_name q) && negb (String.eqb (get_ns o) "") &&
                                     String.eqb (get_ns o) (q_ns q)) (raw_attachments evs)
                then None else Some "attachment-request-outside-target-namespace"
            end
        end) (after_hook evs)
  end.
