(* Informer.v — sequential model of pkg/dynamic/informer (factory.go, informer.go).

   What is modelled, following the code as it is:
   - SharedInformerFactory: `sharedInformers[key]` / `refCount[key]` per resource
     (rs_cur / rs_ref), both changed only under the factory mutex, so every
     operation is one atomic step.
   - Resource(): joins the informer of the key if there is one (refCount+1),
     otherwise starts a new sharedResourceInformer with refCount 1.  Each call
     returns a NEW subscription (ResourceInformer/informerWrapper) that stays
     bound to the sharedResourceInformer it was created for (st_sub).
   - ResourceInformer.Close(): closeOnce.Do(closeFn) — only the first Close through
     a subscription reaches closeFn (st_closed), later ones do nothing.
   - closeFn (one per sharedResourceInformer, closing over ITS stopCh but reading
     the per-KEY refCount): count := refCount[key]-1; count>0 -> store it;
     otherwise close(stopCh) — which would PANIC if that informer's stopCh were
     already closed (kept in the model, proved unreachable) — and delete both
     map entries.
   - sharedEventHandler: one handler table per sharedResourceInformer, keyed by
     subscription; kept here as the list of entries (subscription, handler,
     own-timer?) in insertion order (the Go map's iteration order is random:
     deliveries are compared as multisets).  addHandler appends and replays the
     informer's cache to the new handler as OnUpdate(obj,obj) (NSync);
     removeHandlers deletes every entry of the subscription (and stops their
     timers); neither looks at refCount or at whether the informer still runs.
   - An object event reaches only the RUNNING informer of the resource
     (the stopped ones have no watch), updates its cache the way client-go's
     DeltaFIFO/processDeltas does (ADDED/MODIFIED of a cached object -> OnUpdate,
     of an uncached one -> OnAdd; DELETED of an uncached object -> nothing) and
     is fanned out to every entry of that informer's table.
   - A new informer's cache is the server's content at that moment (its LIST);
     Subscribe is taken together with the initial sync (callers wait HasSynced).
   - eventHandler.start: the own resync timer is the environment event
     `Tick s h`: one more replay of the cache to that handler while its entry
     (with own timer) is in the table.

   Identifiers are natural numbers: resources, object ids, handler ids (chosen
   by the caller), subscription ids (0,1,2,... in the order of the Subscribe
   operations) and informer ids (0,1,2,... in the order they are started). *)
From Coq Require Export List Arith Bool.
Export ListNotations.

(* ---- small utilities ---- *)
Definition upd {A : Type} (f : nat -> A) (k : nat) (v : A) : nat -> A :=
  fun x => if Nat.eqb x k then v else f x.

Definition memn (o : nat) (l : list nat) : bool := existsb (Nat.eqb o) l.
Definition removen (o : nat) (l : list nat) : list nat := filter (fun x => negb (Nat.eqb o x)) l.

(* ---- vocabulary ---- *)
Inductive ekind := EAdd | EMod | EDel.          (* watch event types ADDED / MODIFIED / DELETED *)

Inductive note :=
| NAdd (o : nat)      (* OnAdd(obj) *)
| NUpd (o : nat)      (* OnUpdate(old,new), old != new *)
| NDel (o : nat)      (* OnDelete(obj) *)
| NSync (o : nat).    (* OnUpdate(obj,obj): replay / resync *)

Definition note_obj (n : note) : nat :=
  match n with NAdd x | NUpd x | NDel x | NSync x => x end.

(* a delivery: (subscription the handler was added through, handler id, notification) *)
Definition delivery : Type := nat * nat * note.
Definition d_sub (d : delivery) : nat := fst (fst d).
Definition d_h (d : delivery) : nat := snd (fst d).
Definition d_note (d : delivery) : note := snd d.

Inductive op :=
| Subscribe (r : nat)
| AddHandler (s h : nat) (own : bool)   (* own = own resync period < relist period *)
| RemoveHandlers (s : nat)
| Close (s : nat)
| Event (r : nat) (k : ekind) (o : nat)
| Tick (s h : nat)
| SubscribeUnknown (r : nat).   (* Resource() for a resource discovery does not know: returns an error *)

(* one entry of sharedEventHandler.handlers *)
Record hent := mkHe { he_sub : nat; he_id : nat; he_own : bool }.

(* one sharedResourceInformer *)
Record inf := mkInf {
  i_res : nat;
  i_stopped : bool;          (* its stopCh is closed *)
  i_cache : list nat;        (* keys in its indexer *)
  i_hs : list hent           (* its sharedEventHandler table *)
}.

(* per resource key *)
Record rstate := mkRs {
  rs_cur : option nat;       (* sharedInformers[key] *)
  rs_ref : nat;              (* refCount[key] (absent = 0) *)
  rs_gen : nat;              (* informers started so far for this key *)
  rs_store : list nat        (* objects in the API server *)
}.

Record state := mkState {
  st_ninf : nat; st_inf : nat -> inf;
  st_nsub : nat; st_sub : nat -> option nat;   (* subscription -> its informer *)
  st_rs : nat -> rstate;
  st_closed : nat -> bool                      (* ResourceInformer.closeOnce has fired *)
}.

Definition inf0 : inf := mkInf 0 true [] [].
Definition rs0 : rstate := mkRs None 0 0 [].
Definition init : state := mkState 0 (fun _ => inf0) 0 (fun _ => None) (fun _ => rs0) (fun _ => false).

(* result of one operation *)
Record sres := mkRes { r_st : state; r_out : list delivery; r_panic : bool }.

(* ---- cache / store transition (client-go DeltaFIFO + processDeltas) ---- *)
Definition cache_apply (k : ekind) (o : nat) (c : list nat) : list nat * option note :=
  match k with
  | EDel => if memn o c then (removen o c, Some (NDel o)) else (c, None)
  | _ => if memn o c then (c, Some (NUpd o)) else ((c ++ [o])%list, Some (NAdd o))
  end.

Definition replay (s h : nat) (c : list nat) : list delivery :=
  map (fun o => (s, h, NSync o)) c.

Definition fanout (hs : list hent) (n : option note) : list delivery :=
  match n with
  | None => []
  | Some n => map (fun e => (he_sub e, he_id e, n)) hs
  end.

Definition set_hs (i : inf) (hs : list hent) : inf := mkInf (i_res i) (i_stopped i) (i_cache i) hs.

Definition has_own (s h : nat) (hs : list hent) : bool :=
  existsb (fun e => Nat.eqb (he_sub e) s && Nat.eqb (he_id e) h && he_own e) hs.

(* ---- the step function ---- *)
Definition step (st : state) (o : op) : sres :=
  (* every operation but Close leaves the closeOnce flags alone *)
  let mkSt := fun a b c d e => mkState a b c d e (st_closed st) in
  match o with
  | Subscribe r =>
      let rs := st_rs st r in
      match rs_cur rs with
      | Some i =>
          mkRes (mkSt (st_ninf st) (st_inf st)
                      (S (st_nsub st)) (upd (st_sub st) (st_nsub st) (Some i))
                      (upd (st_rs st) r (mkRs (Some i) (S (rs_ref rs)) (rs_gen rs) (rs_store rs))))
                [] false
      | None =>
          let i := st_ninf st in
          mkRes (mkSt (S i) (upd (st_inf st) i (mkInf r false (rs_store rs) []))
                      (S (st_nsub st)) (upd (st_sub st) (st_nsub st) (Some i))
                      (upd (st_rs st) r (mkRs (Some i) 1 (S (rs_gen rs)) (rs_store rs))))
                [] false
      end
  | AddHandler s h own =>
      match st_sub st s with
      | None => mkRes st [] false
      | Some i =>
          let fi := st_inf st i in
          mkRes (mkSt (st_ninf st) (upd (st_inf st) i (set_hs fi (i_hs fi ++ [mkHe s h own])%list))
                      (st_nsub st) (st_sub st) (st_rs st))
                (replay s h (i_cache fi)) false
      end
  | RemoveHandlers s =>
      match st_sub st s with
      | None => mkRes st [] false
      | Some i =>
          let fi := st_inf st i in
          mkRes (mkSt (st_ninf st)
                      (upd (st_inf st) i (set_hs fi (filter (fun e => negb (Nat.eqb (he_sub e) s)) (i_hs fi))))
                      (st_nsub st) (st_sub st) (st_rs st))
                [] false
      end
  | Close s =>
      match st_sub st s with
      | None => mkRes st [] false
      | Some i =>
          if st_closed st s then
            (* closeOnce: a second Close through the same subscription does nothing *)
            mkRes st [] false
          else
          let cl := upd (st_closed st) s true in
          let fi := st_inf st i in
          let r := i_res fi in
          let rs := st_rs st r in
          if 2 <=? rs_ref rs then
            (* count > 0: others are still using it *)
            mkRes (mkState (st_ninf st) (st_inf st) (st_nsub st) (st_sub st)
                        (upd (st_rs st) r (mkRs (rs_cur rs) (rs_ref rs - 1) (rs_gen rs) (rs_store rs))) cl)
                  [] false
          else if i_stopped fi then
            (* close(stopCh) of a closed channel, before any map is touched
               (unreachable: C18_no_panic) *)
            mkRes (mkState (st_ninf st) (st_inf st) (st_nsub st) (st_sub st) (st_rs st) cl) [] true
          else
            mkRes (mkState (st_ninf st)
                        (upd (st_inf st) i (mkInf (i_res fi) true (i_cache fi) (i_hs fi)))
                        (st_nsub st) (st_sub st)
                        (upd (st_rs st) r (mkRs None 0 (rs_gen rs) (rs_store rs))) cl)
                  [] false
      end
  | Event r k o =>
      let rs := st_rs st r in
      let store' := fst (cache_apply k o (rs_store rs)) in
      let rss := upd (st_rs st) r (mkRs (rs_cur rs) (rs_ref rs) (rs_gen rs) store') in
      match rs_cur rs with
      | None => mkRes (mkSt (st_ninf st) (st_inf st) (st_nsub st) (st_sub st) rss) [] false
      | Some i =>
          let fi := st_inf st i in
          let cn := cache_apply k o (i_cache fi) in
          mkRes (mkSt (st_ninf st) (upd (st_inf st) i (mkInf (i_res fi) (i_stopped fi) (fst cn) (i_hs fi)))
                      (st_nsub st) (st_sub st) rss)
                (fanout (i_hs fi) (snd cn)) false
      end
  | Tick s h =>
      match st_sub st s with
      | None => mkRes st [] false
      | Some i =>
          let fi := st_inf st i in
          mkRes st (if has_own s h (i_hs fi) then replay s h (i_cache fi) else []) false
      end
  | SubscribeUnknown _ =>
      (* clientset.Resource fails before anything is counted or created *)
      mkRes st [] false
  end.

(* ---- runs ---- *)
Fixpoint run_from (st : state) (ops : list op) : state :=
  match ops with
  | [] => st
  | o :: ops' => run_from (r_st (step st o)) ops'
  end.
Definition run (ops : list op) : state := run_from init ops.

(* per-step outputs *)
Fixpoint trace_from (st : state) (ops : list op) : list (list delivery) :=
  match ops with
  | [] => []
  | o :: ops' => r_out (step st o) :: trace_from (r_st (step st o)) ops'
  end.
Definition trace (ops : list op) : list (list delivery) := trace_from init ops.

(* all deliveries of a run, in order *)
Definition outs_from (st : state) (ops : list op) : list delivery := concat (trace_from st ops).
Definition outs (ops : list op) : list delivery := outs_from init ops.

(* did any step panic *)
Fixpoint panics_from (st : state) (ops : list op) : bool :=
  match ops with
  | [] => false
  | o :: ops' => r_panic (step st o) || panics_from (r_st (step st o)) ops'
  end.

(* ---- observers ---- *)
Definition running (st : state) (r : nat) : bool :=
  match rs_cur (st_rs st r) with Some _ => true | None => false end.
Definition refcount (st : state) (r : nat) : nat := rs_ref (st_rs st r).
Definition generation (st : state) (r : nat) : nat := rs_gen (st_rs st r).
Definition store (st : state) (r : nat) : list nat := rs_store (st_rs st r).
(* cache and handler table of the informer currently serving r *)
Definition cur_cache (st : state) (r : nat) : list nat :=
  match rs_cur (st_rs st r) with Some i => i_cache (st_inf st i) | None => [] end.
Definition cur_handlers (st : state) (r : nat) : list hent :=
  match rs_cur (st_rs st r) with Some i => i_hs (st_inf st i) | None => [] end.
(* cache and handlers as seen through subscription s *)
Definition sub_cache (st : state) (s : nat) : list nat :=
  match st_sub st s with Some i => i_cache (st_inf st i) | None => [] end.
Definition sub_res (st : state) (s : nat) : option nat :=
  match st_sub st s with Some i => Some (i_res (st_inf st i)) | None => None end.
(* s is attached to the informer that currently serves its resource *)
Definition sub_live (st : state) (s : nat) : bool :=
  match st_sub st s with
  | Some i => match rs_cur (st_rs st (i_res (st_inf st i))) with
              | Some j => Nat.eqb i j
              | None => false
              end
  | None => false
  end.

Definition to_sub (s : nat) (d : delivery) : bool := Nat.eqb (d_sub d) s.
Definition not_to_sub (s : nat) (d : delivery) : bool := negb (Nat.eqb (d_sub d) s).

(* ---- what the callers did: bookkeeping over the operation sequence alone ----
   (independent of the factory: this is the SPECIFICATION side) *)
Record tracker := mkTr {
  t_nsub : nat;                         (* Subscribe calls so far *)
  t_open : list (nat * nat);            (* (subscription, resource) subscribed and not yet closed *)
  t_reg : nat -> list (nat * bool);     (* handlers added through s since its last RemoveHandlers *)
  t_store : nat -> list nat             (* objects in the server, per resource *)
}.
Definition tr0 : tracker := mkTr 0 [] (fun _ => []) (fun _ => []).

Definition is_open (tr : tracker) (s : nat) : bool := existsb (fun p => Nat.eqb (fst p) s) (t_open tr).
Definition open_res (tr : tracker) (s : nat) : option nat :=
  match find (fun p => Nat.eqb (fst p) s) (t_open tr) with Some p => Some (snd p) | None => None end.
Definition open_count (tr : tracker) (r : nat) : nat :=
  length (filter (fun p => Nat.eqb (snd p) r) (t_open tr)).

Definition track_step (tr : tracker) (o : op) : tracker :=
  match o with
  | Subscribe r => mkTr (S (t_nsub tr)) (t_open tr ++ [(t_nsub tr, r)])%list (t_reg tr) (t_store tr)
  | AddHandler s h own =>
      if s <? t_nsub tr then mkTr (t_nsub tr) (t_open tr) (upd (t_reg tr) s (t_reg tr s ++ [(h, own)])%list) (t_store tr)
      else tr
  | RemoveHandlers s => mkTr (t_nsub tr) (t_open tr) (upd (t_reg tr) s []) (t_store tr)
  | Close s => mkTr (t_nsub tr) (filter (fun p => negb (Nat.eqb (fst p) s)) (t_open tr)) (t_reg tr) (t_store tr)
  | Event r k o => mkTr (t_nsub tr) (t_open tr) (t_reg tr) (upd (t_store tr) r (fst (cache_apply k o (t_store tr r))))
  | Tick _ _ => tr
  | SubscribeUnknown _ => tr
  end.

Fixpoint track_from (tr : tracker) (ops : list op) : tracker :=
  match ops with
  | [] => tr
  | o :: ops' => track_from (track_step tr o) ops'
  end.
Definition track (ops : list op) : tracker := track_from tr0 ops.

(* ---- vocabulary of the isolation theorem ---- *)
(* the operations of subscription a that only concern its own handlers *)
Definition is_handler_op_of (a : nat) (o : op) : bool :=
  match o with
  | AddHandler s _ _ => Nat.eqb s a
  | RemoveHandlers s => Nat.eqb s a
  | _ => false
  end.
Definition erase_handler_ops (a : nat) (ops : list op) : list op :=
  filter (fun o => negb (is_handler_op_of a o)) ops.

Definition mentions_add (s : nat) (o : op) : bool :=
  match o with AddHandler s' _ _ => Nat.eqb s' s | _ => false end.
Definition mentions_close (s : nat) (o : op) : bool :=
  match o with Close s' => Nat.eqb s' s | _ => false end.
