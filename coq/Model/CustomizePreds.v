(* CustomizePreds.v — C15 as executable predicates over what was sent to the
   hooks.  The same constants are used by the theorems (Proofs/C15Proofs.v,
   about the model) and by the check (Check/C15_check.v, on the
   implementation's recorded behaviour). *)
From MC Require Import Generated.
From MC Require Export Model.Customize Model.TracePreds.
Local Open Scope list_scope.

(* ---------- which objects a rule selects (the specification) ---------- *)
Definition spec_selects (pn : bool) (parent : json) (r : rule) (o : json) : bool :=
  match selection_type r with
  | SelLabels =>
      match to_selector (r_selector r) with
      | Some sel => sel_matches sel (get_labels o) &&
                    (negb pn || String.eqb (get_ns o) (get_ns parent))
      | None => false
      end
  | SelNamesNs =>
      (String.eqb (r_namespace r) "" || String.eqb (get_ns o) (r_namespace r)) &&
      match r_names r with [] => true | names => mem_str (get_name o) names end
  | SelInvalid => false
  end.

(* what reaches the wire for a parent in namespace pns *)
Definition wire_visible (pns : string) (o : json) : bool :=
  String.eqb pns "" || String.eqb pns (get_ns o).

Definition wire_objects (pns : string) (m : umap) : list json :=
  filter (wire_visible pns) (uobjects m).

(* a rule that must be refused *)
Definition rule_bad (pn : bool) (parent : json) (r : rule) : bool :=
  match selection_type r with
  | SelInvalid => true
  | SelNamesNs => pn && negb (String.eqb (r_namespace r) "") &&
                  negb (String.eqb (get_ns parent) (r_namespace r))
  | SelLabels => false
  end.

(* a rule that cannot be evaluated at all: unknown resource, unusable selector *)
Definition rule_unusable (c : ccfg) (r : rule) : bool :=
  match lookup_res c (r_api_version r) (r_resource r) with
  | None => true
  | Some _ => match selection_type r with
              | SelLabels => match to_selector (r_selector r) with None => true | Some _ => false end
              | _ => false end
  end.

(* an entry of relatedResources that must be refused: a null entry is one more such shape *)
Definition entry_bad (pn : bool) (parent : json) (x : option rule) : bool :=
  match x with None => true | Some r => rule_bad pn parent r end.

Definition some_rules (rules : list (option rule)) : list rule :=
  flat_map (fun x => match x with Some r => [r] | None => [] end) rules.

(* the parent is of the scope the controller declares *)
Definition scope_ok (c : ccfg) (parent : json) : bool :=
  Bool.eqb (p_namespaced c) (negb (String.eqb (get_ns parent) "")).

(* ---------- C15_related_exact: the `related` field of a sync / finalize request ---------- *)
Definition C15_expected (c : ccfg) (k : cache) (parent : json) (rules : list rule) : json :=
  let pns := get_ns parent in
  JObj (fold_left (fun acc r =>
          match lookup_res c (r_api_version r) (r_resource r) with
          | None => acc
          | Some kc =>
              let key := gvk_text (ch_api_version kc) (ch_kind kc) in
              let prev := match alookup key acc with Some (JObj g) => g | _ => [] end in
              let members := filter (fun o => spec_selects (p_namespaced c) parent r o && wire_visible pns o) (cached k (ch_res kc)) in
              aset key (JObj (fold_left (fun g o => aset (relative_name pns o) o g) members prev)) acc
          end) rules []).

Definition C15_related_exact (c : ccfg) (k : cache) (rules : list (option rule)) (body : json) : bool :=
  let parent := jget "parent" (obj_map body) in
  jeqb (jget "related" (obj_map body)) (C15_expected c k parent (some_rules rules)).

(* ---------- C15_invalid_rule_is_error ---------- *)
Definition C15_invalid_rule_is_error (c : ccfg) (parent : json) (rules : list (option rule))
           (evs : list ev) (res : sync_result) : bool :=
  if existsb (entry_bad (p_namespaced c) parent) rules
  then match hook_events evs with
       | [] => match res with SDone => match evs with [] => true | _ => false end | _ => true end
       | _ => false
       end
  else true.

(* ---------- C15_customize_once ---------- *)
Definition cust_key_of (cl : call) : option ckey :=
  match cl with
  | CHook HCustomize (JObj m) =>
      match alookup "parent" m with Some p => Some (parent_key p) | None => None end
  | _ => None
  end.

Definition decodable (a : answer) : bool :=
  match a with
  | AHook body => match decode_customize body with Some _ => true | None => false end
  | _ => false
  end.

Definition serves (key : ckey) (ca : call * answer) : bool :=
  match cust_key_of (fst ca) with
  | Some k' => ckey_eqb k' key && decodable (snd ca)
  | None => false
  end.

Definition served_in (key : ckey) (h : list (call * answer)) : bool := existsb (serves key) h.

(* h: most recent first (as Prog.run keeps it): no customize call for a key already answered *)
Fixpoint C15_customize_once (h : list (call * answer)) : bool :=
  match h with
  | [] => true
  | ca :: h' =>
      match cust_key_of (fst ca) with
      | Some key => negb (served_in key h')
      | None => true
      end && C15_customize_once h'
  end.

Definition count_served (key : ckey) (h : list (call * answer)) : nat :=
  List.length (filter (serves key) h).

(* ---------- C15_selected_implies_trigger ---------- *)
(* every object on the wire is matched by the rule that selected it *)
Definition triggers (c : ccfg) (parent : json) (rules : list rule) (o : json) : bool :=
  existsb (fun r =>
    match lookup_res c (r_api_version r) (r_resource r) with
    | Some kc => match matches_related_rule (p_namespaced c) parent o (Some r) (ch_kind kc) with
                 | Ok true => true | _ => false end
    | None => false
    end) rules.

Definition every_selecting_rule_triggers (c : ccfg) (parent : json) (rules : list rule) (o : json) : bool :=
  forallb (fun r =>
    match lookup_res c (r_api_version r) (r_resource r) with
    | Some kc =>
        if String.eqb (get_api_version o) (ch_api_version kc) && String.eqb (get_kind o) (ch_kind kc) &&
           spec_selects (p_namespaced c) parent r o
        then match matches_related_rule (p_namespaced c) parent o (Some r) (ch_kind kc) with
             | Ok true => true | _ => false end
        else true
    | None => true
    end) rules.

(* the objects of a wire-format related map *)
Definition wire_map_objects (related : json) : list json :=
  flat_map (fun g => map snd (obj_map (snd g))) (obj_map related).

Definition C15_selected_implies_trigger (c : ccfg) (rules : list (option rule)) (body : json) : bool :=
  let parent := jget "parent" (obj_map body) in
  let rs := some_rules rules in
  forallb (fun o => triggers c parent rs o && every_selecting_rule_triggers c parent rs o)
          (wire_map_objects (jget "related" (obj_map body))).

(* ---------- the rules in effect for a parent, read off the recorded customize calls ---------- *)
(* evs: oldest first *)
Definition rules_in_effect (evs : list (call * answer)) (key : ckey) : option (list (option rule)) :=
  match find (serves key) evs with
  | Some (_, AHook body) => decode_customize body
  | _ => None
  end.
