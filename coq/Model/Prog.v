(* Prog.v — controller code that talks to the API server or to a hook, as an
   interaction tree.  Running a tree against an arbitrary answer function
   quantifies over every server behaviour: faults, conflicts, effects of
   concurrent writers. *)
From MC Require Export Model.Selector.

Inductive verb := VGet | VCreate | VUpdate | VUpdateStatus | VDelete | VPatchJson | VPatchApply.

Definition verb_eqb (a b : verb) : bool :=
  match a, b with
  | VGet, VGet | VCreate, VCreate | VUpdate, VUpdate | VUpdateStatus, VUpdateStatus
  | VDelete, VDelete | VPatchJson, VPatchJson | VPatchApply, VPatchApply => true
  | _, _ => false
  end.

(* one API request.  q_res identifies the resource as "<plural>.<apiVersion>" *)
Record req := mkRq {
  q_verb : verb; q_res : string; q_ns : string; q_name : string;
  q_body : json;            (* JNull when the verb carries no body *)
  q_uid_pre : string;       (* delete precondition, "" if none *)
  q_prop : string           (* delete propagation policy, "" if none *)
}.

Inductive hook_kind := HSync | HFinalize | HCustomize.
Definition hook_kind_eqb (a b : hook_kind) : bool :=
  match a, b with HSync, HSync | HFinalize, HFinalize | HCustomize, HCustomize => true | _, _ => false end.

Inductive call :=
| CApi (q : req)
| CHook (k : hook_kind) (body : json).

(* error classes the controller code distinguishes *)
Inductive eclass := ENotFound | EConflict | EAlreadyExists | EGone | EInvalid | EOther.
Definition eclass_eqb (a b : eclass) : bool :=
  match a, b with
  | ENotFound, ENotFound | EConflict, EConflict | EAlreadyExists, EAlreadyExists
  | EGone, EGone | EInvalid, EInvalid | EOther, EOther => true
  | _, _ => false
  end.

Inductive answer :=
| AObj (o : json)                 (* API success: the object returned *)
| AFail (e : eclass)              (* API error *)
| AHook (body : json)             (* hook: HTTP 200 with this decoded body *)
| AHookErr                        (* hook: transport / status / decode-level error *)
| AHook429 (after : Z).           (* hook: 429 with Retry-After *)

Inductive prog (R : Type) : Type :=
| Ret (r : R)
| Do (c : call) (k : answer -> prog R).
Arguments Ret {R} r.
Arguments Do {R} c k.

Fixpoint bind {A B} (p : prog A) (f : A -> prog B) : prog B :=
  match p with
  | Ret a => f a
  | Do c k => Do c (fun x => bind (k x) f)
  end.
Notation "x <~ p ;; q" := (bind p (fun x => q)) (at level 61, p at next level, right associativity).
Notation "' pat <~ p ;; q" := (bind p (fun pat => q)) (at level 61, pat pattern, p at next level, right associativity).

(* sequential map with early exit left to the caller *)
Fixpoint mapM {A B} (f : A -> prog B) (l : list A) : prog (list B) :=
  match l with
  | [] => Ret []
  | a :: l' => b <~ f a ;; r <~ mapM f l' ;; Ret (b :: r)
  end.

(* the environment: given the history of calls so far (most recent first)
   and the next call, an answer *)
Definition env := list (call * answer) -> call -> answer.

Fixpoint run {R} (p : prog R) (e : env) (hist : list (call * answer)) : list (call * answer) * R :=
  match p with
  | Ret r => (hist, r)
  | Do c k => let a := e hist c in run (k a) e ((c, a) :: hist)
  end.

(* the trace of a run, oldest first *)
Definition trace_of {R} (p : prog R) (e : env) : list (call * answer) := rev (fst (run p e [])).
Definition result_of {R} (p : prog R) (e : env) : R := snd (run p e []).

(* "every call the program can ever make, whatever the answers, satisfies Phi" *)
Inductive all_calls {R} (Phi : call -> Prop) : prog R -> Prop :=
| AC_ret r : all_calls Phi (Ret r)
| AC_do c k : Phi c -> (forall a, all_calls Phi (k a)) -> all_calls Phi (Do c k).
