(* Json.v — the value domain of the model: decoded JSON as Go's
   encoding/json + apimachinery hold it (int64 and float64 are distinct,
   null is distinct from {} and []), objects as association lists. *)
From Coq Require Export List String ZArith Bool Ascii.
From Coq Require Import DecimalString.
Export ListNotations.
Open Scope string_scope.

Inductive json : Type :=
| JNull
| JBool (b : bool)
| JInt (z : Z)
| JFloat (s : string)      (* canonical decimal text of a non-integral float64 *)
| JStr (s : string)
| JText (j : json)         (* a string whose content is the JSON text of j *)
| JArr (l : list json)
| JObj (m : list (string * json)).

Definition amap := list (string * json).

(* Outcome of a Go function: value, returned error, or run-time panic. *)
Inductive res (A : Type) : Type :=
| Ok (a : A)
| Err
| Panic.
Arguments Ok {A} a.
Arguments Err {A}.
Arguments Panic {A}.

Definition rbind {A B} (r : res A) (f : A -> res B) : res B :=
  match r with Ok a => f a | Err => Err | Panic => Panic end.
Notation "x <- r ;; k" := (rbind r (fun x => k)) (at level 61, r at next level, right associativity).
Notation "' p <- r ;; k" := (rbind r (fun p => k)) (at level 61, p pattern, r at next level, right associativity).

Definition is_ok {A} (r : res A) : bool := match r with Ok _ => true | _ => false end.
Definition is_panic {A} (r : res A) : bool := match r with Panic => true | _ => false end.

(* ---- association lists ---- *)
Fixpoint alookup (k : string) (m : amap) : option json :=
  match m with
  | [] => None
  | (k', v) :: m' => if String.eqb k k' then Some v else alookup k m'
  end.

Definition ahas (k : string) (m : amap) : bool :=
  match alookup k m with Some _ => true | None => false end.

(* Go: m[k] on map[string]interface{} — a missing key and a null value both
   read as the nil interface. *)
Definition jget (k : string) (m : amap) : json :=
  match alookup k m with Some v => v | None => JNull end.

(* replace in place, else append *)
Fixpoint aset (k : string) (v : json) (m : amap) : amap :=
  match m with
  | [] => [(k, v)]
  | (k', v') :: m' => if String.eqb k k' then (k, v) :: m' else (k', v') :: aset k v m'
  end.

Fixpoint aremove (k : string) (m : amap) : amap :=
  match m with
  | [] => []
  | (k', v') :: m' => if String.eqb k k' then aremove k m' else (k', v') :: aremove k m'
  end.

Definition akeys (m : amap) : list string := map fst m.

Fixpoint mem_str (k : string) (l : list string) : bool :=
  match l with [] => false | x :: l' => String.eqb k x || mem_str k l' end.

Fixpoint strs_eqb (a b : list string) : bool :=
  match a, b with
  | [], [] => true
  | x :: a', y :: b' => String.eqb x y && strs_eqb a' b'
  | _, _ => false
  end.

Fixpoint nodup_str (l : list string) : bool :=
  match l with [] => true | x :: l' => negb (mem_str x l') && nodup_str l' end.

(* ---- order-insensitive equality (Go's reflect.DeepEqual on decoded JSON) ---- *)
Fixpoint jeqb (a b : json) : bool :=
  match a, b with
  | JNull, JNull => true
  | JBool x, JBool y => Bool.eqb x y
  | JInt x, JInt y => Z.eqb x y
  | JFloat x, JFloat y => String.eqb x y
  | JStr x, JStr y => String.eqb x y
  | JText x, JText y => jeqb x y
  | JArr x, JArr y =>
      (fix go (x y : list json) : bool :=
         match x, y with
         | [], [] => true
         | a :: x', b :: y' => jeqb a b && go x' y'
         | _, _ => false
         end) x y
  | JObj x, JObj y =>
      Nat.eqb (List.length x) (List.length y) &&
      (fix go (x : amap) : bool :=
         match x with
         | [] => true
         | (k, v) :: x' =>
             match alookup k y with Some v' => jeqb v v' | None => false end && go x'
         end) x
  | _, _ => false
  end.

(* hereditarily unique object keys: the only objects a Go map can represent *)
Fixpoint wf_json (j : json) : bool :=
  match j with
  | JText x => wf_json x
  | JArr l => (fix go (l : list json) : bool :=
                 match l with [] => true | a :: l' => wf_json a && go l' end) l
  | JObj m => nodup_str (map fst m) &&
              (fix go (m : amap) : bool :=
                 match m with [] => true | (_, v) :: m' => wf_json v && go m' end) m
  | _ => true
  end.

(* ---- nested access, as k8s.io/apimachinery unstructured helpers ---- *)
Definition as_obj (j : json) : option amap := match j with JObj m => Some m | _ => None end.
Definition as_arr (j : json) : option (list json) := match j with JArr l => Some l | _ => None end.
Definition as_str (j : json) : option string := match j with JStr s => Some s | _ => None end.
Definition is_null (j : json) : bool := match j with JNull => true | _ => false end.
Definition is_container (j : json) : bool := match j with JObj _ | JArr _ => true | _ => false end.

(* NestedFieldNoCopy: (value, found, err).  err when a non-final path
   element exists, is not null... (apimachinery: a non-map on the way is an
   error; a missing key is found=false) *)
Inductive nested := NFound (v : json) | NMissing | NErr.

Fixpoint nested_get (m : amap) (path : list string) : nested :=
  match path with
  | [] => NFound (JObj m)
  | [k] => match alookup k m with Some v => NFound v | None => NMissing end
  | k :: path' =>
      match alookup k m with
      | None => NMissing
      | Some JNull => NMissing
      | Some (JObj m') => nested_get m' path'
      | Some _ => NErr
      end
  end.

(* SetNestedField: creates intermediate maps; error if an intermediate
   value exists and is not a map. *)
Fixpoint nested_set (m : amap) (path : list string) (v : json) : option amap :=
  match path with
  | [] => Some m
  | [k] => Some (aset k v m)
  | k :: path' =>
      match alookup k m with
      | None => match nested_set [] path' v with
                | Some sub => Some (aset k (JObj sub) m) | None => None end
      | Some (JObj m') => match nested_set m' path' v with
                          | Some sub => Some (aset k (JObj sub) m) | None => None end
      | Some _ => None
      end
  end.

(* RemoveNestedField: no-op if anything on the way is missing or not a map *)
Fixpoint nested_remove (m : amap) (path : list string) : amap :=
  match path with
  | [] => m
  | [k] => aremove k m
  | k :: path' =>
      match alookup k m with
      | Some (JObj m') => aset k (JObj (nested_remove m' path')) m
      | _ => m
      end
  end.

Definition string_of_Z (z : Z) : string := NilZero.string_of_int (Z.to_int z).

Fixpoint first_some {A} (f : A -> option string) (l : list A) : option string :=
  match l with [] => None | a :: l' => match f a with Some s => Some s | None => first_some f l' end end.

(* Custom induction principle (nested through list). *)
Section JsonInd.
  Variable P : json -> Prop.
  Hypothesis Hnull : P JNull.
  Hypothesis Hbool : forall b, P (JBool b).
  Hypothesis Hint : forall z, P (JInt z).
  Hypothesis Hfloat : forall s, P (JFloat s).
  Hypothesis Hstr : forall s, P (JStr s).
  Hypothesis Htext : forall j, P j -> P (JText j).
  Hypothesis Harr : forall l, Forall P l -> P (JArr l).
  Hypothesis Hobj : forall m, Forall (fun kv => P (snd kv)) m -> P (JObj m).

  Fixpoint json_ind' (j : json) : P j :=
    match j with
    | JNull => Hnull
    | JBool b => Hbool b
    | JInt z => Hint z
    | JFloat s => Hfloat s
    | JStr s => Hstr s
    | JText x => Htext x (json_ind' x)
    | JArr l => Harr l ((fix go (l : list json) : Forall P l :=
                           match l with
                           | [] => Forall_nil _
                           | a :: l' => Forall_cons a (json_ind' a) (go l')
                           end) l)
    | JObj m => Hobj m ((fix go (m : amap) : Forall (fun kv => P (snd kv)) m :=
                           match m with
                           | [] => Forall_nil _
                           | kv :: m' => Forall_cons kv (json_ind' (snd kv)) (go m')
                           end) m)
    end.
End JsonInd.
