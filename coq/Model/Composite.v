(* Composite.v — pkg/controller/composite: sync / syncParentObject and the
   helpers it runs (finalizer, claiming, hook call, child management with
   dynamic apply, status update), as a program over API and hook calls. *)
From MC Require Import Generated.
From MC Require Export Model.HookIO Model.Apply.
Local Open Scope list_scope.

(* ---------- configuration (from the CompositeController + discovery) ---------- *)
Record child_cfg := mkChild {
  ch_api_version : string; ch_resource : string; ch_kind : string;
  ch_namespaced : bool; ch_method : string  (* "" when no updateStrategy *)
}.

Record ccfg := mkCfg {
  cc_name : string;
  p_api_version : string; p_kind : string; p_resource : string; p_namespaced : bool;
  p_has_status : bool;
  gen_selector : bool;
  p_selector : selector;            (* the controller's parent selector (Everything if unset) *)
  kids : list child_cfg;
  has_sync : bool; has_finalize : bool;
  known : list child_cfg;           (* discovery: every kind the dynamic client can resolve *)
  ssa : bool;                       (* server-side apply instead of dynamic apply *)
  has_customize : bool;
  field_paths : list (list string); (* revisionHistory.fieldPaths, default [["spec"]] *)
  checks : list (string * list (string * option string * option string))
                                    (* res key -> status checks (type, status, reason) *)
}.

Definition finalizer_name (c : ccfg) : string := ("metacontroller.io/compositecontroller-" ++ cc_name c)%string.
Definition res_key (resource apiVersion : string) : string := (resource ++ "." ++ apiVersion)%string.
Definition p_res (c : ccfg) : string := res_key (p_resource c) (p_api_version c).
Definition ch_res (k : child_cfg) : string := res_key (ch_resource k) (ch_api_version k).

(* per-round informer caches *)
Record cache := mkCache {
  k_parent : option json;                           (* what the lister returns for the key *)
  k_children : list (string * list json)            (* res_key -> every cached object of the resource *)
}.

Definition cached (k : cache) (res : string) : list json :=
  match find (fun p => String.eqb (fst p) res) (k_children k) with Some p => snd p | None => [] end.

(* ---------- API helpers ---------- *)
Inductive apires := ROk (o : json) | RErr (e : eclass).

Definition api (q : req) : prog apires :=
  Do (CApi q) (fun a => match a with
                        | AObj o => Ret (ROk o)
                        | AFail e => Ret (RErr e)
                        | _ => Ret (RErr EOther) end).

Definition rq_get res ns name := mkRq VGet res ns name JNull "" "".
Definition rq_put (status : bool) res ns name body :=
  mkRq (if status then VUpdateStatus else VUpdate) res ns name body "" "".
Definition rq_create res ns name body := mkRq VCreate res ns name body "" "".
Definition rq_delete res ns name uid := mkRq VDelete res ns name JNull uid "Background".

Definition eff_ns (namespaced : bool) (ns : string) : string := if namespaced then ns else "".

(* clientset.AtomicUpdate / AtomicStatusUpdate: GET, UID check, modify, PUT;
   retried on conflict, retry.DefaultBackoff.Steps = 4 attempts *)
Fixpoint atomic_update (fuel : nat) (res ns name uid : string) (status : bool)
         (f : json -> option json) : prog apires :=
  match fuel with
  | O => Ret (RErr EConflict)
  | S n =>
      g <~ api (rq_get res ns name) ;;
      match g with
      | RErr EConflict => match n with O => Ret (RErr EConflict) | _ => atomic_update n res ns name uid status f end
      | RErr e => Ret (RErr e)
      | ROk cur =>
          if negb (String.eqb (get_uid cur) uid) then Ret (RErr ENotFound) else
          match f cur with
          | None => Ret (ROk cur)
          | Some upd =>
              u <~ api (rq_put status res ns name upd) ;;
              match u with
              | RErr EConflict => match n with O => Ret (RErr EConflict) | _ => atomic_update n res ns name uid status f end
              | r => Ret r
              end
          end
      end
  end.
Definition retry_steps : nat := 4.

Definition set_finalizers (o : json) (fs : list string) : json :=
  match o with
  | JObj m => match nested_set m ["metadata"; "finalizers"] (JArr (map JStr fs)) with
              | Some m' => JObj m' | None => o end
  | _ => o
  end.

Definition add_finalizer (f : string) (o : json) : option json :=
  if has_finalizer o f then None else Some (set_finalizers o (get_finalizers o ++ [f])).
Definition remove_finalizer (f : string) (o : json) : option json :=
  if has_finalizer o f
  then Some (set_finalizers o (filter (fun x => negb (String.eqb x f)) (get_finalizers o)))
  else None.

(* ---------- finalizer.Manager ---------- *)
Definition has_gc_finalizer (o : json) : bool :=
  existsb (fun f => String.eqb f "foregroundDeletion" || String.eqb f "orphan") (get_finalizers o).

Definition should_finalize (c : ccfg) (parent : json) : bool :=
  if has_gc_finalizer parent then false
  else if negb (has_finalizer parent (finalizer_name c)) then false
  else has_finalize c.

Definition sync_finalizer (c : ccfg) (parent : json) : prog apires :=
  let fin := finalizer_name c in
  let pns := eff_ns (p_namespaced c) (get_ns parent) in
  if Bool.eqb (has_finalizer parent fin) (has_finalize c) then Ret (ROk parent)
  else if has_finalize c then
    if is_deleting parent then Ret (ROk parent)
    else atomic_update retry_steps (p_res c) pns (get_name parent) (get_uid parent) false (add_finalizer fin)
  else atomic_update retry_steps (p_res c) pns (get_name parent) (get_uid parent) false (remove_finalizer fin).

Definition ignores_parent (c : ccfg) (parent : json) : bool :=
  negb (has_finalizer parent (finalizer_name c)) && negb (sel_matches (p_selector c) (get_labels parent)).

(* ---------- makeSelector ---------- *)
Definition make_selector (c : ccfg) (parent : json) : option selector :=
  if gen_selector c then Some (SelReqs [mkReq "controller-uid" OpIn [get_uid parent]])
  else
    match nested_get (obj_map parent) ["spec"; "selector"] with
    | NErr => None
    | NMissing => None                          (* decodes to an empty selector: refused *)
    | NFound j =>
        match label_selector_of_json j with
        | None => None
        | Some ls =>
            if (Nat.eqb (List.length (match_labels ls)) 0 && Nat.eqb (List.length (match_exprs ls)) 0)%bool
            then None else as_selector (Some ls)
        end
    end.

(* ---------- claiming (ControllerRefManager) ---------- *)
Inductive claim_action := ClKeep | ClIgnore | ClRelease | ClAdopt.

Definition claim_decision (parent_uid : string) (parent_deleting : bool) (sel : selector) (o : json) : claim_action :=
  match controller_of o with
  | Some r =>
      if negb (String.eqb (or_uid r) parent_uid) then ClIgnore
      else if sel_matches sel (get_labels o) then ClKeep
      else if parent_deleting then ClIgnore
      else ClRelease
  | None =>
      if parent_deleting || negb (sel_matches sel (get_labels o)) then ClIgnore
      else if is_deleting o then ClIgnore
      else ClAdopt
  end.

(* canAdoptFunc: one uncached GET of the parent per manager *)
Definition can_adopt_check (c : ccfg) (parent : json) : prog bool :=
  g <~ api (rq_get (p_res c) (eff_ns (p_namespaced c) (get_ns parent)) (get_name parent)) ;;
  match g with
  | RErr _ => Ret false
  | ROk fresh => Ret (String.eqb (get_uid fresh) (get_uid parent) && negb (is_deleting fresh))
  end.

(* state of the once-cell: None = not yet asked *)
Definition claim_one (c : ccfg) (k : child_cfg) (parent : json) (sel : selector)
           (st : option bool * list json * bool) (o : json)
  : prog (option bool * list json * bool) :=
  let '(once, claimed, failed) := st in
  let ns := eff_ns (ch_namespaced k) (get_ns o) in
  match claim_decision (get_uid parent) (is_deleting parent) sel o with
  | ClKeep => Ret (once, claimed ++ [o], failed)
  | ClIgnore => Ret (once, claimed, failed)
  | ClRelease =>
      r <~ atomic_update retry_steps (ch_res k) ns (get_name o) (get_uid o) false
             (fun cur => Some (set_owner_refs cur (remove_owner_ref (get_owner_refs cur) (get_uid parent)))) ;;
      match r with
      | ROk _ | RErr ENotFound | RErr EGone => Ret (once, claimed, failed)
      | RErr _ => Ret (once, claimed, true)
      end
  | ClAdopt =>
      '(once', can) <~ match once with
                       | Some b => Ret (once, b)
                       | None => b <~ can_adopt_check c parent ;; Ret (Some b, b)
                       end ;;
      if negb can then Ret (once', claimed, true) else
      r <~ atomic_update retry_steps (ch_res k) ns (get_name o) (get_uid o) false
             (fun cur => Some (set_owner_refs cur
                (add_owner_ref (get_owner_refs cur)
                   (controller_ref (p_api_version c) (p_kind c) (get_name parent) (get_uid parent))))) ;;
      match r with
      | ROk _ => Ret (once', claimed ++ [o], failed)
      | RErr ENotFound => Ret (once', claimed, failed)
      | RErr _ => Ret (once', claimed, true)
      end
  end.

Fixpoint foldM {A S} (f : S -> A -> prog S) (l : list A) (s : S) : prog S :=
  match l with
  | [] => Ret s
  | a :: l' => s' <~ f s a ;; foldM f l' s'
  end.

Definition visible (c : ccfg) (parent : json) (o : json) : bool :=
  if p_namespaced c then String.eqb (get_ns o) (get_ns parent) else true.

(* claimChildren: None = error *)
Definition claim_children (c : ccfg) (k : cache) (parent : json) : prog (option umap) :=
  match make_selector c parent with
  | None => Ret None
  | Some sel =>
      foldM (fun (acc : option umap) (kc : child_cfg) =>
               match acc with
               | None => Ret None
               | Some m =>
                   let all := filter (visible c parent) (cached k (ch_res kc)) in
                   '(_, claimed, failed) <~ foldM (claim_one c kc parent sel) all (None, [], false) ;;
                   if failed then Ret None
                   else Ret (Some (fold_left (fun m o => uinsert o m) claimed
                                              (uinit (ch_api_version kc) (ch_kind kc) m)))
               end) (kids c) (Some [])
  end.

(* ---------- hook call ---------- *)
Inductive hook_result :=
| HRNone                       (* neither hook enabled *)
| HRErr                        (* call or decode failed *)
| HR429 (after : Z)
| HRResp (r : hook_resp).

Definition hook_request (parent : json) (observed related : umap) (finalizing : bool) : json :=
  JObj [("children", convert (get_ns parent) observed);
        ("finalizing", JBool finalizing);
        ("parent", parent);
        ("related", convert (get_ns parent) related)].

Definition call_hook (c : ccfg) (parent : json) (observed related : umap) : prog hook_result :=
  let finalizing := has_finalize c && (is_deleting parent || negb (sel_matches (p_selector c) (get_labels parent))) in
  if negb finalizing && negb (has_sync c) then Ret HRNone else
  Do (CHook (if finalizing then HFinalize else HSync) (hook_request parent observed related finalizing))
     (fun a => match a with
               | AHook body =>
                   match decode_composite body with
                   | None => Ret HRErr
                   | Some r => Ret (HRResp (mkHR (hr_status r)
                                       (map (default_ns (get_ns parent))
                                            (filter (fun c => match c with Some _ => true | None => false end) (hr_children r)))
                                       (hr_resync r) (hr_finalized r)))
                   end
               | AHook429 n => Ret (HR429 n)
               | _ => Ret HRErr
               end).

(* ---------- ManageChildren (dynamic apply) ---------- *)
Definition lookup_kind (c : ccfg) (apiVersion kind : string) : option child_cfg :=
  find (fun k => String.eqb (ch_api_version k) apiVersion && String.eqb (ch_kind k) kind) (known c).

Definition method_of (c : ccfg) (group kind : string) : string :=
  match find (fun k => String.eqb (group_of (ch_api_version k)) group && String.eqb (ch_kind k) kind
                       && negb (String.eqb (ch_method k) "") && negb (String.eqb (ch_method k) method_on_delete)) (kids c) with
  | Some k => ch_method k
  | None => method_on_delete
  end.

Definition olookup (k : string) (m : list (string * json)) : option json :=
  match find (fun p => String.eqb (fst p) k) m with Some p => Some (snd p) | None => None end.

(* deleteChildren of one group; returns "some request failed" *)
Definition delete_children (kc : child_cfg) (observed desired : list (string * json)) : prog bool :=
  foldM (fun (failed : bool) (p : string * json) =>
           let o := snd p in
           if is_deleting o then Ret failed else
           match olookup (fst p) desired with
           | Some _ => Ret failed
           | None =>
               r <~ api (rq_delete (ch_res kc) (eff_ns (ch_namespaced kc) (get_ns o)) (get_name o) (get_uid o)) ;;
               match r with
               | ROk _ | RErr ENotFound => Ret failed
               | RErr _ => Ret true
               end
           end) observed false.

Inductive child_action :=
| ActNone | ActError | ActPanic
| ActDelete (uid : string)
| ActUpdate (body : json)
| ActCreate (body : json).

(* what updateChildren does for one desired object *)
Definition child_decision (c : ccfg) (kc : child_cfg) (parent : json)
           (observed : option json) (desired : json) : child_action :=
  match observed with
  | Some old =>
      match apply_update (obj_map old) (obj_map desired) with
      | Err => ActError
      | Panic => ActPanic
      | Ok newm =>
          if jeqb (JObj newm) old then ActNone
          else if is_deleting old then ActNone
          else
            let m := method_of c (group_of (ch_api_version kc)) (ch_kind kc) in
            if String.eqb m method_on_delete then ActNone
            else if String.eqb m method_recreate || String.eqb m method_rolling_recreate then ActDelete (get_uid old)
            else if String.eqb m method_in_place || String.eqb m method_rolling_in_place then ActUpdate (JObj newm)
            else ActError
      end
  | None =>
      let d1 := JObj (set_last_applied (obj_map desired) desired) in
      let ref := controller_ref (get_api_version parent) (get_kind parent) (get_name parent) (get_uid parent) in
      ActCreate (set_owner_refs d1 (get_owner_refs d1 ++ [ref]))
  end.

(* server-side apply of one desired child (filled in by Model/SSA section below) *)
(* the applied object always carries our controller reference (as a created one does) *)
Definition ssa_body (parent d : json) : json :=
  if controlled_by d (get_uid parent) then d
  else set_owner_refs d (get_owner_refs d ++
         [controller_ref (get_api_version parent) (get_kind parent) (get_name parent) (get_uid parent)]).

Definition ssa_child (c : ccfg) (kc : child_cfg) (parent : json) (observed : option json) (d : json) : prog bool :=
  let ns := eff_ns (ch_namespaced kc) (get_ns d) in
  r1 <~ match observed with
        | Some old =>
            match get_annotation old last_applied_annotation with
            | Some _ =>
                api (mkRq VPatchJson (ch_res kc) ns (get_name d)
                       (JArr [JObj [("op", JStr "remove");
                                    ("path", JStr "/metadata/annotations/metacontroller.k8s.io~1last-applied-configuration")]]) "" "")
            | None => Ret (ROk JNull)
            end
        | None => Ret (ROk JNull)
        end ;;
  match r1 with
  | RErr _ => Ret true
  | ROk _ =>
      r2 <~ api (mkRq VPatchApply (ch_res kc) ns (get_name d) (ssa_body parent d) "" "") ;;
      match r2 with ROk _ => Ret false | RErr _ => Ret true end
  end.

Definition update_children (c : ccfg) (kc : child_cfg) (parent : json)
           (observed desired : list (string * json)) : prog bool :=
  foldM (fun (failed : bool) (p : string * json) =>
           let d := snd p in
           let ns := eff_ns (ch_namespaced kc) (get_ns d) in
           if ssa c then f <~ ssa_child c kc parent (olookup (fst p) observed) d ;; Ret (failed || f) else
           match child_decision c kc parent (olookup (fst p) observed) d with
           | ActNone => Ret failed
           | ActError | ActPanic => Ret true
           | ActDelete uid =>
               r <~ api (rq_delete (ch_res kc) ns (get_name d) uid) ;;
               match r with ROk _ | RErr ENotFound => Ret failed | RErr _ => Ret true end
           | ActUpdate body =>
               r <~ api (rq_put false (ch_res kc) ns (get_name d) body) ;;
               match r with ROk _ | RErr ENotFound | RErr EConflict => Ret failed | RErr _ => Ret true end
           | ActCreate body =>
               r <~ api (rq_create (ch_res kc) ns (get_name d) body) ;;
               match r with ROk _ | RErr EAlreadyExists => Ret failed | RErr _ => Ret true end
           end) desired false.

Definition manage_children (c : ccfg) (parent : json) (observed desired : umap) : prog bool :=
  f1 <~ foldM (fun (failed : bool) (g : group) =>
                 match g with (av, kd, os) =>
                   match lookup_kind c av kd with
                   | None => Ret true
                   | Some kc =>
                       f <~ delete_children kc os (match ufind_group av kd desired with Some d => d | None => [] end) ;;
                       Ret (failed || f)
                   end end) observed false ;;
  foldM (fun (failed : bool) (g : group) =>
           match g with (av, kd, ds) =>
             match lookup_kind c av kd with
             | None => Ret true
             | Some kc =>
                 f <~ update_children c kc parent
                        (match ufind_group av kd observed with Some o => o | None => [] end) ds ;;
                 Ret (failed || f)
             end end) desired f1.

(* ---------- status ---------- *)
Definition desired_status (parent : json) (st : json) : json :=
  JObj (aset "observedGeneration" (JInt (get_generation parent)) (obj_or_nil st)).

Definition update_parent_status (c : ccfg) (parent : json) (st : json) : prog apires :=
  let want := desired_status parent st in
  atomic_update retry_steps (p_res c) (eff_ns (p_namespaced c) (get_ns parent)) (get_name parent)
    (get_uid parent) (p_has_status c)
    (fun cur => if jeqb (jget "status" (obj_map cur)) want then None
                else Some (JObj (aset "status" want (obj_map cur)))).

(* ---------- label invariant on desired children ---------- *)
(* Ok children' | Err *)
Fixpoint enforce_labels (c : ccfg) (parent : json) (sel : selector) (ds : list json) : option (list json) :=
  match ds with
  | [] => Some []
  | d :: ds' =>
      match nested_get (obj_map d) ["metadata"; "labels"] with
      | NErr => None
      | r =>
          let strict := match r with
                        | NFound (JObj m) =>
                            if forallb (fun kv => match snd kv with JStr _ => true | _ => false end) m
                            then Some (map (fun kv => (fst kv, match snd kv with JStr s => s | _ => "" end)) m)
                            else None
                        | NMissing => Some []
                        | _ => None end in
          match strict with
          | None => None
          | Some ls =>
              let '(d', ls') :=
                if gen_selector c then
                  match slookup "controller-uid" ls with
                  | Some _ => (d, ls)
                  | None =>
                      let ls2 := ls ++ [("controller-uid", get_uid parent)] in
                      (match d with
                       | JObj m => match nested_set m ["metadata"; "labels"]
                                           (JObj (map (fun kv => (fst kv, JStr (snd kv))) ls2)) with
                                   | Some m' => JObj m' | None => d end
                       | _ => d end, ls2)
                  end
                else (d, ls) in
              if sel_matches sel ls' then
                match enforce_labels c parent sel ds' with
                | Some r => Some (d' :: r) | None => None end
              else None
          end
      end
  end.

(* ---------- sync ---------- *)
Inductive sync_result := SDone | SErr | SRequeue (after : Z) | SPanic.

Definition note (tag : string) (j : json) : prog unit :=
  Do (CHook HCustomize (JObj [("note", JStr tag); ("arg", j)])) (fun _ => Ret tt).

(* desired children: MakeUniformObjectMap; a nil entry panics in Insert *)
Fixpoint desired_map (cs : list (option json)) (m : umap) : option umap :=
  match cs with
  | [] => Some m
  | None :: _ => None
  | Some o :: cs' => desired_map cs' (uinsert o m)
  end.

Definition uobjects (m : umap) : list json :=
  flat_map (fun g => match g with (_, _, os) => map snd os end) m.

(* everything after the hook answered: finalizer removal, label invariant,
   children, status *)
Definition finish_sync (c : ccfg) (parent : json) (observed : umap) (r : hook_resp) : prog sync_result :=
  match desired_map (hr_children r) [] with
  | None => Ret SPanic
  | Some desired0 =>
      _ <~ (if positive_number (hr_resync r) then note "resync" (hr_resync r) else Ret tt) ;;
      pr <~ (if hr_finalized r
             then atomic_update retry_steps (p_res c) (eff_ns (p_namespaced c) (get_ns parent))
                    (get_name parent) (get_uid parent) false (remove_finalizer (finalizer_name c))
             else Ret (ROk parent)) ;;
      match pr with
      | RErr _ => Ret SErr
      | ROk parent =>
          match make_selector c parent with
          | None => Ret SErr
          | Some sel =>
              match enforce_labels c parent sel (uobjects desired0) with
              | None => Ret SErr
              | Some ds =>
                  let desired := fold_left (fun m o => uinsert o m) ds [] in
                  failed <~ (if negb (is_deleting parent) || should_finalize c parent
                             then manage_children c parent observed desired
                             else Ret false) ;;
                  sr <~ update_parent_status c parent (hr_status r) ;;
                  match sr with
                  | RErr ENotFound | RErr EConflict => Ret (if failed then SErr else SDone)
                  | RErr _ => Ret SErr
                  | ROk _ => Ret (if failed then SErr else SDone)
                  end
              end
          end
      end
  end.

(* customize.GetRelatedObjects: None = error.  Without a customize hook the map is empty. *)
Definition related_phase (c : ccfg) (k : cache) (parent : json) : prog (option umap) :=
  Ret (Some []).

(* syncRevisions for controllers without a rolling strategy: one hook call *)
Definition hook_phase (c : ccfg) (k : cache) (parent : json) (observed related : umap) : prog hook_result :=
  call_hook c parent observed related.

Definition sync_parent_object (c : ccfg) (k : cache) (parent : json) : prog sync_result :=
  if ignores_parent c parent then Ret SDone else
  fr <~ sync_finalizer c parent ;;
  match fr with
  | RErr _ => Ret SErr
  | ROk parent =>
      if ignores_parent c parent then Ret SDone else
      oc <~ claim_children c k parent ;;
      match oc with
      | None => Ret SErr
      | Some observed =>
          orel <~ related_phase c k parent ;;
          match orel with
          | None => Ret SErr
          | Some related =>
              hr <~ hook_phase c k parent observed related ;;
              match hr with
              | HRNone | HRErr => Ret SErr
              | HR429 n => Ret (SRequeue n)
              | HRResp r => finish_sync c parent observed r
              end
          end
      end
  end.

Definition sync (c : ccfg) (k : cache) : prog sync_result :=
  match k_parent k with
  | None => Ret SDone
  | Some parent => sync_parent_object c k parent
  end.
