(* C20_check.v — one correspondence case of property C20: a history of events
   run against the REAL Metacontroller.Reconcile (composite or decorator), with,
   after every event, what the implementation was observed to do. *)
From MC Require Export Model.Verdict Model.Meta.

Record C20_obs := mkObs {
  o_outcome : outcome;                           (* Reconcile returned nil | an error | panicked *)
  o_insts : list (string * (Z * Z));             (* controller map afterwards: name -> (spec id, incarnation);
                                                    the incarnation changes exactly when the map holds another instance value *)
  o_refs : list (string * Z);                    (* dynInformers.refCount afterwards *)
  o_active : list (string * (Z * (Z * Z)));      (* (name, (spec id, (hook calls, API writes))) made on behalf of the
                                                    instance (name, spec id) in the observation window after the event *)
  o_wpanics : Z;                                 (* panics of hosted workers in the window *)
  o_inflight_return : bool                       (* the event was issued while a sync of the name's instance was held inside
                                                    its sync hook call, and Reconcile returned before that call was released *)
}.

Record C20_case := mkC20 {
  c_flavor : flavor;
  c_steps : list (event * C20_obs)
}.

(* ---- helpers ------------------------------------------------------------------------- *)

Fixpoint zfind {A} (n : string) (m : list (string * A)) : option A :=
  match m with
  | [] => None
  | (n', v) :: m' => if String.eqb n n' then Some v else zfind n m'
  end.

Fixpoint repeat_key (r : rkey) (n : nat) : list rkey :=
  match n with O => [] | S n' => r :: repeat_key r n' end.

(* the factory a refCount map stands for; None if a count is not positive
   (the factory deletes an entry when it reaches 0) *)
Fixpoint factory_of (m : list (string * Z)) : option factory :=
  match m with
  | [] => Some []
  | (r, z) :: m' =>
      if (z <=? 0)%Z then None else
      match factory_of m' with
      | Some f => Some (repeat_key r (Z.to_nat z) ++ f)%list
      | None => None
      end
  end.

(* what Stop() of an instance started with s closes: one informer per distinct rule *)
Definition distinct_keys (rs : list rule) : list rkey :=
  fold_left (fun m r => imap_set (ru_key r) m) rs [].
Definition expected_subs (fl : flavor) (s : spec) : list rkey :=
  match fl with
  | Composite => (distinct_keys (s_children s) ++ map ru_key (firstn 1 (s_parents s)))%list
  | Decorator => (distinct_keys (s_children s) ++ distinct_keys (s_parents s))%list
  end.

(* the configurations the property calls unable to start *)
Definition hook_unusable (h : hook_cfg) : bool :=
  match h with HookWebhook w => negb (webhook_url_ok w) | _ => false end.
Definition spec_unusableb (fl : flavor) (s : spec) (crd : crd_lookup) : bool :=
  negb (crd_passesb fl crd) ||
  existsb (fun r => negb (ru_known r)) (s_parents s ++ s_children s)%list ||
  existsb (fun r => negb (ru_selector_ok r)) (s_parents s) ||
  match s_hooks s with
  | None => true
  | Some h => hook_unusable (h_sync h) || hook_unusable (h_finalize h) || hook_unusable (h_customize h)
  end.

Definition zpos (z : Z) : bool := (0 <? z)%Z.

Definition is_active (a : string * (Z * (Z * Z))) : bool :=
  zpos (fst (snd (snd a))) || zpos (snd (snd (snd a))).

(* specs seen so far, by id *)
Fixpoint spec_by_id (id : Z) (l : list spec) : option spec :=
  match l with
  | [] => None
  | s :: l' => if Z.eqb (s_id s) id then Some s else spec_by_id id l'
  end.

(* ---- 1. the property, on the implementation's observations alone -------------------------- *)

(* implementation-side bookkeeping while walking the history *)
Record iview := mkIview {
  v_prev : list (string * (Z * Z));        (* controller map before the event *)
  v_specs : list spec;                     (* specs that were offered so far *)
  v_related : list (string * list rkey)    (* related informers opened by the syncs of the current incarnation *)
}.

(* the observed state as a model state, so that the SAME predicates apply *)
Fixpoint impl_insts (fl : flavor) (specs : list spec) (rel : list (string * list rkey))
         (m : list (string * (Z * Z))) : option (list (cname * inst)) :=
  match m with
  | [] => Some []
  | (n, (id, _)) :: m' =>
      match spec_by_id id specs, impl_insts fl specs rel m' with
      | Some s, Some l =>
          Some ((n, mkInst s (expected_subs fl s) (match zfind n rel with Some r => r | None => [] end)) :: l)
      | _, _ => None
      end
  end.

Definition impl_state (fl : flavor) (v : iview) (o : C20_obs) : option state :=
  match impl_insts fl (v_specs v) (v_related v) (o_insts o), factory_of (o_refs o) with
  | Some l, Some f => Some (mkState l f)
  | _, _ => None
  end.

Definition others_untouched (n : string) (prev cur : list (string * (Z * Z))) : bool :=
  forallb (fun p => String.eqb (fst p) n ||
                    match zfind (fst p) cur with
                    | Some (id, inc) => Z.eqb id (fst (snd p)) && Z.eqb inc (snd (snd p))
                    | None => false
                    end) prev &&
  forallb (fun p => String.eqb (fst p) n ||
                    match zfind (fst p) prev with Some _ => true | None => false end) cur.

(* two instances of one name at work in the same window *)
Fixpoint two_active (l : list (string * (Z * (Z * Z)))) : bool :=
  match l with
  | [] => false
  | a :: l' =>
      (is_active a &&
       existsb (fun b => is_active b && String.eqb (fst a) (fst b) && negb (Z.eqb (fst (snd a)) (fst (snd b)))) l')
      || two_active l'
  end.

Definition rel_add (n : string) (r : rkey) (rel : list (string * list rkey)) : list (string * list rkey) :=
  match zfind n rel with
  | Some l => if memb r l then rel else (n, (l ++ [r])%list) :: filter (fun p => negb (String.eqb (fst p) n)) rel
  | None => (n, [r]) :: rel
  end.

(* related informers die with the incarnation *)
Definition rel_prune (prev cur : list (string * (Z * Z))) (rel : list (string * list rkey)) : list (string * list rkey) :=
  filter (fun p => match zfind (fst p) prev, zfind (fst p) cur with
                   | Some (_, i1), Some (_, i2) => Z.eqb i1 i2
                   | _, _ => false
                   end) rel.

Definition sync_enabled (s : spec) : bool :=
  match s_hooks s with
  | Some h => match new_hook (h_sync h) with Ok b => b | _ => false end
  | None => false
  end.

(* The instance of another name that the event left alone (same incarnation) is still
   served: every parent object was modified after the event, and an instance with a
   sync hook must have called it for its parents within the observation window. *)
Definition others_still_served (n : string) (specs : list spec) (prev cur : list (string * (Z * Z)))
           (act : list (string * (Z * (Z * Z)))) : bool :=
  forallb (fun p =>
             String.eqb (fst p) n ||
             match zfind (fst p) prev with
             | Some (_, inc0) =>
                 negb (Z.eqb inc0 (snd (snd p))) ||
                 match spec_by_id (fst (snd p)) specs with
                 | Some sp =>
                     negb (sync_enabled sp) ||
                     existsb (fun a => String.eqb (fst a) (fst p) && Z.eqb (fst (snd a)) (fst (snd p)) &&
                                       zpos (fst (snd (snd a)))) act
                 | None => true
                 end
             | None => true
             end) cur.

Definition prop_step (fl : flavor) (v : iview) (e : event) (o : C20_obs) : option string * iview :=
  let specs := match e with Reconcile _ (LFound s _) => s :: v_specs v | _ => v_specs v end in
  let rel0 := rel_prune (v_prev v) (o_insts o) (v_related v) in
  let rel := match e with
             | Related n r => match zfind n (o_insts o) with Some _ => rel_add n (ru_key r) rel0 | None => rel0 end
             | _ => rel0
             end in
  let v' := mkIview (o_insts o) specs rel in
  let prev := v_prev v in
  let cur := o_insts o in
  let verdict :=
    first_fail [
      ("constructor-panic", negb (match o_outcome o with RPanic => true | _ => false end));
      (* Stop joins the workers: a Reconcile that removes or replaces the instance cannot
         return while one of its syncs is still in flight *)
      ("stop-returned-with-sync-in-flight",
         negb (o_inflight_return o &&
               match e with
               | Reconcile n _ =>
                   match zfind n prev with
                   | Some (_, inc0) => match zfind n cur with
                                       | Some (_, inc) => negb (Z.eqb inc0 inc)
                                       | None => true
                                       end
                   | None => false
                   end
               | Related _ _ => false
               end));
      ("two-instances", nodupb (map fst cur) && negb (two_active (o_active o)));
      ("instance-running-after-delete",
         match e with
         | Reconcile n LNotFound => match zfind n cur with Some _ => false | None => true end
         | _ => true
         end);
      ("old-instance-still-running-after-spec-change",
         match e with
         | Reconcile n (LFound s _) =>
             match zfind n cur with Some (id, _) => Z.eqb id (s_id s) | None => true end
         | _ => true
         end);
      ("restart-on-equal-spec",
         match e with
         | Reconcile n (LFound s _) =>
             match zfind n prev with
             | Some (id, inc) =>
                 if Z.eqb id (s_id s)
                 then match zfind n cur with Some (id', inc') => Z.eqb id' id && Z.eqb inc' inc | None => false end
                 else true
             | None => true
             end
         | _ => true
         end);
      ("other-instance-disturbed",
         match e with
         | Reconcile n _ => others_untouched n prev cur
         | Related _ _ => others_untouched "" prev cur
         end);
      (* a stop, delete or restart of one hosted controller never affects another's instance *)
      ("other-controller-silenced",
         match e with
         | Reconcile n _ => others_still_served n specs prev cur (o_active o)
         | Related _ _ => true
         end);
      ("bad-config-running",
         match e with
         | Reconcile n (LFound s crd) =>
             match zfind n cur with
             | Some (id, inc) =>
                 negb (Z.eqb id (s_id s) && spec_unusableb fl s crd &&
                       match zfind n prev with Some (id0, inc0) => negb (Z.eqb inc0 inc) | None => true end)
             | None => true
             end
         | _ => true
         end);
      ("subscriptions-leaked",
         match impl_state fl v' o with
         | Some st => balancedb st
         | None => false
         end);
      ("activity-after-stop",
         forallb (fun a => negb (is_active a) ||
                           match zfind (fst a) cur with
                           | Some (id, _) => Z.eqb id (fst (snd a))
                           | None => false
                           end) (o_active o));
      ("hosted-worker-panic", negb (zpos (o_wpanics o)))
    ] in
  (verdict, v').

Fixpoint prop_walk (fl : flavor) (v : iview) (steps : list (event * C20_obs)) : option string :=
  match steps with
  | [] => None
  | (e, o) :: rest =>
      match prop_step fl v e o with
      | (Some c, _) => Some c
      | (None, v') => prop_walk fl v' rest
      end
  end.

(* ---- 2. model against implementation ---------------------------------------------------- *)

Definition outcome_eqb (a b : outcome) : bool :=
  match a, b with
  | ROk, ROk | RErr, RErr | RPanic, RPanic => true
  | _, _ => false
  end.

Definition started (n : string) (acts : list action) : bool :=
  existsb (fun a => match a with Started n' _ => String.eqb n n' | _ => false end) acts.

Definition model_step (fl : flavor) (ms : state) (prev : list (string * (Z * Z))) (e : event) (o : C20_obs) : option string * state :=
  let '(ms', out, acts) := step fl ms e in
  let cur := o_insts o in
  let verdict :=
    first_fail [
      ("outcome", outcome_eqb out (o_outcome o));
      ("instances",
         Nat.eqb (List.length (insts ms')) (List.length cur) &&
         forallb (fun ni => match zfind (fst ni) cur with
                            | Some (id, _) => Z.eqb id (s_id (i_spec (snd ni)))
                            | None => false
                            end) (insts ms'));
      ("restarts",
         forallb (fun p => match zfind (fst p) prev with
                           | Some (_, inc0) => Bool.eqb (started (fst p) acts) (negb (Z.eqb inc0 (snd (snd p))))
                           | None => started (fst p) acts
                           end) cur);
      ("refcounts",
         forallb (fun r => Z.eqb (Z.of_nat (cnt r (refs ms')))
                                 (match zfind r (o_refs o) with Some z => z | None => 0%Z end))
                 (refs ms' ++ map fst (o_refs o))%list);
      ("liveness",
         forallb (fun ni => negb (sync_enabled (i_spec (snd ni))) ||
                            existsb (fun a => String.eqb (fst a) (fst ni) &&
                                              Z.eqb (fst (snd a)) (s_id (i_spec (snd ni))) &&
                                              zpos (fst (snd (snd a)))) (o_active o)) (insts ms'))
    ] in
  (verdict, ms').

Fixpoint model_walk (fl : flavor) (ms : state) (prev : list (string * (Z * Z))) (steps : list (event * C20_obs)) : option string :=
  match steps with
  | [] => None
  | (e, o) :: rest =>
      match model_step fl ms prev e o with
      | (Some c, _) => Some c
      | (None, ms') => model_walk fl ms' (o_insts o) rest
      end
  end.

(* inputs outside the modelled domain *)
Definition event_in_domain (fl : flavor) (e : event) : bool :=
  match fl, e with
  | Composite, Reconcile _ (LFound s _) => Nat.eqb (List.length (s_parents s)) 1
  | _, _ => true
  end.

Definition C20_check (c : C20_case) : verdict :=
  let fl := c_flavor c in
  if negb (forallb (fun p => event_in_domain fl (fst p)) (c_steps c)) then SKIP "composite-spec-without-single-parent" else
  match prop_walk fl (mkIview [] [] []) (c_steps c) with
  | Some clause => PROPFAIL clause
  | None =>
      match model_walk fl init [] (c_steps c) with
      | Some where_ => DIVERGE where_
      | None => OK
      end
  end.

(* ---- hook client metrics (harness/inpkg/metrics) ------------------------------------------ *)

Record C20m_obs := mkMObs {
  mo_outcome : outcome;       (* InstrumentClientWithConstLabels returned a client | an error | panicked *)
  mo_collector : Z;           (* which instrumentation the client was built on (numbered by first appearance); -1: none *)
  mo_expires : bool;          (* the cache entry of the key has a finite life (false also when there is no entry) *)
  mo_cached : bool            (* the cache holds an entry for the key afterwards *)
}.

Record C20m_case := mkC20m {
  cm_steps : list (mevent * C20m_obs)
}.

(* the property on the implementation alone: keys registered so far with their collector *)
Fixpoint mprop_walk (seen : list (mkey * Z)) (steps : list (mevent * C20m_obs)) : option string :=
  match steps with
  | [] => None
  | (MElapse, o) :: rest =>
      match o with
      | mkMObs ROk _ _ _ => mprop_walk seen rest
      | _ => Some "metrics-elapse-failed"
      end
  | (MReg k, o) :: rest =>
      match mo_outcome o with
      | RPanic => Some "metrics-registration-panics"
      | RErr => match mfind k seen with
                | Some _ => Some "metrics-registration-fails-on-restart"
                | None => Some "metrics-registration-fails"
                end
      | ROk =>
          if mo_expires o then Some "metrics-cache-entry-expires" else
          if negb (mo_cached o) then Some "metrics-not-cached" else
          match mfind k seen with
          | Some id => if Z.eqb id (mo_collector o) then mprop_walk seen rest
                       else Some "metrics-collector-not-reused"
          | None => mprop_walk ((k, mo_collector o) :: seen) rest
          end
      end
  end.

Fixpoint mmodel_walk (st : mstate) (steps : list (mevent * C20m_obs)) : option string :=
  match steps with
  | [] => None
  | (e, o) :: rest =>
      let '(st', out, col) := mstep st e in
      if negb (outcome_eqb out (mo_outcome o)) then Some "metrics-outcome" else
      if negb (Z.eqb (match col with Some id => id | None => (-1)%Z end)
                     (match e with MReg _ => mo_collector o | MElapse => (-1)%Z end))
      then Some "metrics-collector" else
      mmodel_walk st' rest
  end.

Definition C20m_check (c : C20m_case) : verdict :=
  match mprop_walk [] (cm_steps c) with
  | Some clause => PROPFAIL clause
  | None =>
      match mmodel_walk minit (cm_steps c) with
      | Some where_ => DIVERGE where_
      | None => OK
      end
  end.

(* ---- restart with an unsynced ControllerRevision cache (leg C09m of property C09) ------------ *)

Inductive c9ev :=
| C9Hook                                                    (* a sync hook call *)
| C9RevWrite (verb name : string) (children : list string)  (* create/update/delete of a ControllerRevision and the children it records *)
| C9ChildWrite (verb name : string)                         (* create/update/delete/patch of a rolling child *)
| C9Other (verb kind : string).                             (* any other write (parent status) *)

Record C09m_case := mkC09m {
  k_latest : string;                                  (* the image the parent asks for at the restart *)
  k_children : list string;                           (* the rolling children *)
  k_outcome_unsynced : outcome;                       (* Reconcile of the CompositeController while the informer had not synced *)
  k_running_unsynced : bool;                          (* a hosted controller was in the map afterwards *)
  k_before : list c9ev;                               (* what was done before the informer synced *)
  k_revs_unsynced : list (string * list string);      (* the store at the end of that window: revision -> recorded children *)
  k_outcome_synced : outcome;                         (* the retried Reconcile after the informer synced *)
  k_running_synced : bool;
  k_after : list c9ev;                                (* what was done from then on, until nothing moved any more *)
  k_revs_final : list (string * list string);
  k_images_final : list (string * string)             (* child -> image *)
}.

Definition is_hook (e : c9ev) : bool := match e with C9Hook => true | _ => false end.

(* the children written (content) in each sync: a sync starts with a run of hook calls *)
Fixpoint moved_per_sync (evs : list c9ev) (prev_hook : bool) (cur : list string) (acc : list (list string)) : list (list string) :=
  match evs with
  | [] => (cur :: acc)
  | C9Hook :: rest => if prev_hook then moved_per_sync rest true cur acc
                      else moved_per_sync rest true [] (cur :: acc)
  | C9ChildWrite _ n :: rest => moved_per_sync rest false (if memb n cur then cur else n :: cur) acc
  | _ :: rest => moved_per_sync rest false cur acc
  end.

Definition at_most_one_per_sync (evs : list c9ev) : bool :=
  forallb (fun l => Nat.leb (List.length l) 1) (moved_per_sync evs false [] []).

Definition recorded_twice (revs : list (string * list string)) : bool :=
  negb (nodupb (flat_map snd revs)).

Definition c9_spec : spec :=
  mkSpec 1 [mkRule "things.ctl.example.com/v1" true false true] [mkRule "pods.v1" true true true]
         (Some (mkHooks (HookWebhook (mkWh true None false TmoUnset EtagUnset)) HookAbsent HookAbsent)).

(* all failing clauses: the first names the verdict, the others follow after "@" *)
Fixpoint all_fail (l : list (string * bool)) : list string :=
  match l with
  | [] => []
  | (n, b) :: l' => if b then all_fail l' else n :: all_fail l'
  end.
Definition join_clauses (l : list string) : option string :=
  match l with
  | [] => None
  | [n] => Some n
  | n :: rest => Some (n ++ "@" ++ String.concat "," rest)
  end.

Definition C09m_check (c : C09m_case) : verdict :=
  match join_clauses (all_fail [
      (* a parent was synced (hook call or write) before the ControllerRevision cache had synced *)
      ("synced-before-revision-cache", match k_before c with [] => true | _ => false end);
      (* a rollout moves one child per sync *)
      ("children-moved-at-once", at_most_one_per_sync (k_before c) && at_most_one_per_sync (k_after c));
      (* every rolling child is recorded by at most one revision *)
      ("child-recorded-by-two-revisions", negb (recorded_twice (k_revs_unsynced c)) && negb (recorded_twice (k_revs_final c)));
      ("started-before-revision-cache", negb (k_running_unsynced c));
      (* the rollout is carried to its end: every child at the latest image, recorded by the one revision left *)
      ("rollout-not-finished",
         forallb (fun n => match zfind n (k_images_final c) with Some i => String.eqb i (k_latest c) | None => false end) (k_children c) &&
         match k_revs_final c with
         | [(_, l)] => forallb (fun n => memb n l) (k_children c)
         | _ => false
         end)
    ]) with
  | Some clause => PROPFAIL clause
  | None =>
      let e := GEvent (Reconcile "c" (LFound c9_spec CrdOk)) in
      let '(g1, out1, _) := gstep Composite ginit e in
      let '(g2, _, _) := gstep Composite g1 GRevSynced in
      let '(g3, out3, _) := gstep Composite g2 e in
      match first_fail [
          ("outcome-unsynced", outcome_eqb out1 (k_outcome_unsynced c));
          ("running-unsynced", Bool.eqb (runningb "c" (g_state g1)) (k_running_unsynced c));
          ("outcome-synced", outcome_eqb out3 (k_outcome_synced c));
          ("running-synced", Bool.eqb (runningb "c" (g_state g3)) (k_running_synced c))
        ] with
      | Some where_ => DIVERGE where_
      | None => OK
      end
  end.
