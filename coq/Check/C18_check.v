(* C18_check — one correspondence case for pkg/dynamic/informer.
   A case is an operation sequence together with what the REAL
   SharedInformerFactory did at each step: the notifications every recording
   handler received during the step, whether the call panicked, and the
   simulated API server's counters after settling (open WATCH streams and LIST
   requests so far, per resource). *)
From Coq Require Import ZArith String DecimalString.
From MC Require Export Model.Verdict Model.Informer.
Open Scope string_scope.

(* Z-indexed constructors used by the emitted cases *)
Definition zn (z : Z) : nat := Z.to_nat z.
Definition oSub (r : Z) : op := Subscribe (zn r).
Definition oAdd (s h : Z) (own : bool) : op := AddHandler (zn s) (zn h) own.
Definition oRem (s : Z) : op := RemoveHandlers (zn s).
Definition oClose (s : Z) : op := Close (zn s).
Definition oEv (r : Z) (k : ekind) (o : Z) : op := Event (zn r) k (zn o).
Definition oTick (s h : Z) : op := Tick (zn s) (zn h).
Definition oSubU (r : Z) : op := SubscribeUnknown (zn r).
Definition dA (s h o : Z) : delivery := (zn s, zn h, NAdd (zn o)).
Definition dU (s h o : Z) : delivery := (zn s, zn h, NUpd (zn o)).
Definition dD (s h o : Z) : delivery := (zn s, zn h, NDel (zn o)).
Definition dS (s h o : Z) : delivery := (zn s, zn h, NSync (zn o)).

Record C18_obs := mkObs {
  ob_op : op;
  ob_dels : list delivery;   (* received by the recording handlers during the step *)
  ob_panic : bool;           (* the call panicked *)
  ob_watch : list Z;         (* per resource 0..: open WATCH streams after settling *)
  ob_lists : list Z          (* per resource 0..: LIST requests served so far *)
}.
(* c_windows: indices of window steps.
   - an Event step that the harness emitted WHILE the AddHandler of the preceding
     step was still inside its replay callbacks (the handler of that step was
     blocked by the harness, then released);
   - a RemoveHandlers step issued WHILE the fan-out of the preceding Event step was
     parked inside another subscriber's handler: its deliveries are exactly what
     the removed subscription's handlers received after RemoveEventHandlers() had
     RETURNED (everything else is in the Event step). *)
(* c_hung: index (in the scenario's operation list) of the operation that did not
   return within the harness's watchdog bound, -1 if every operation returned;
   c_steps then holds the operations completed before it.
   c_anomalies: things the harness saw of the code under test that are not part
   of a step: 1 = after k concurrent Resource() calls that started one informer
   the factory's reference count is not k; 2 = Resource() for a resource unknown
   to discovery succeeded; 4 = a panic escaped an operation of the scenario. *)
Record C18_case := mkC18 { c_nres : Z; c_steps : list C18_obs; c_windows : list Z;
                           c_hung : Z; c_anomalies : list Z }.

Definition anomaly_name (z : Z) : string :=
  match z with
  | 1%Z => "refcount-not-subscriber-count"
  | 2%Z => "failed-subscribe-succeeded"
  | 4%Z => "scenario-panicked"
  | _ => "harness-anomaly"
  end.

(* ---- multisets of deliveries ---- *)
Definition note_eqb (a b : note) : bool :=
  match a, b with
  | NAdd x, NAdd y => Nat.eqb x y
  | NUpd x, NUpd y => Nat.eqb x y
  | NDel x, NDel y => Nat.eqb x y
  | NSync x, NSync y => Nat.eqb x y
  | _, _ => false
  end.
Definition del_eqb (a b : delivery) : bool :=
  Nat.eqb (d_sub a) (d_sub b) && Nat.eqb (d_h a) (d_h b) && note_eqb (d_note a) (d_note b).
Definition countd (d : delivery) (l : list delivery) : nat := length (filter (del_eqb d) l).

(* remove one occurrence *)
Fixpoint remove1 (d : delivery) (l : list delivery) : option (list delivery) :=
  match l with
  | [] => None
  | x :: l' => if del_eqb d x then Some l'
               else match remove1 d l' with Some r => Some (x :: r) | None => None end
  end.
(* obs minus exp; None when some expected delivery is missing *)
Fixpoint msub (obs exp : list delivery) : option (list delivery) :=
  match exp with
  | [] => Some obs
  | d :: exp' => match remove1 d obs with Some obs' => msub obs' exp' | None => None end
  end.

Definition is_sync (n : note) : bool := match n with NSync _ => true | _ => false end.
Definition reg_has (tr : tracker) (s h : nat) : bool := existsb (fun p => Nat.eqb (fst p) h) (t_reg tr s).
Definition reg_has_own (tr : tracker) (s h : nat) : bool :=
  existsb (fun p => Nat.eqb (fst p) h && snd p) (t_reg tr s).

(* a resync notification to a handler with an own timer can arrive at any time *)
Definition timer_noise (tr : tracker) (d : delivery) : bool :=
  is_sync (d_note d) && reg_has_own tr (d_sub d) (d_h d).

Definition nat_str (n : nat) : string := NilEmpty.string_of_uint (Nat.to_uint n).
Definition at_step (clause : string) (k : nat) : string := clause ++ "@" ++ nat_str k.

Definition op_actor (o : op) : option nat :=
  match o with
  | AddHandler s _ _ | RemoveHandlers s | Close s | Tick s _ => Some s
  | _ => None
  end.
Definition is_event (o : op) : bool := match o with Event _ _ _ => true | _ => false end.

Definition nthz (l : list Z) (r : nat) : Z := nth r l 0%Z.
(* a negative counter = not observed at this step (the first of two operations the
   harness issued concurrently: the server's counters are read once, after both) *)
Definition seen (l : list Z) (r : nat) : bool := Z.leb 0 (nthz l r).

(* ---- the property, evaluated on the implementation's observations alone.
   tr / tr' : the callers' bookkeeping before / after the operation. ---- *)
(* informers the callers' own history calls for, per resource: one more each
   time a resource with no open subscription is subscribed to *)
Definition starts_step (tr : tracker) (ex : nat -> nat) (o : op) : nat -> nat :=
  match o with
  | Subscribe r => if Nat.eqb (open_count tr r) 0 then upd ex r (S (ex r)) else ex
  | _ => ex
  end.

(* the handler added by the previous step saw object x, in its replay or as an event *)
Definition saw_object (s h x : nat) (l : list delivery) : bool :=
  existsb (fun d => Nat.eqb (d_sub d) s && Nat.eqb (d_h d) h && Nat.eqb (note_obj (d_note d)) x) l.

(* prev: the previous step (its operation and what was received during it);
   win: this step is an event emitted inside the replay window of the previous AddHandler *)
Definition prop_step (nres : nat) (tr : tracker) (ex : nat -> nat) (prev : option C18_obs) (win : bool)
                     (ob : C18_obs) : option string :=
  let o := ob_op ob in
  let tr' := track_step tr o in
  let obs := ob_dels ob in
  first_fail [
    (* nothing reaches a handler that is not registered (any more) *)
    ("handler-received-after-removal",
       forallb (fun d => reg_has tr' (d_sub d) (d_h d)) obs);
    (* an operation of one subscriber delivers nothing to the others *)
    ("foreign-subscriber-affected",
       if is_event o then true else
       forallb (fun d => timer_noise tr' d ||
                         match op_actor o with Some s => Nat.eqb (d_sub d) s | None => false end) obs);
    (* a handler added through an open subscription gets the cached objects replayed *)
    ("no-replay-on-add",
       match o with
       | AddHandler s h own =>
           match open_res tr s with
           | Some r =>
               forallb (fun x => let c := countd (s, h, NSync x) obs in
                                 if own then Nat.leb 1 c else Nat.eqb c 1) (t_store tr r)
           | None => true
           end
       | _ => true
       end);
    (* add is atomic with respect to events: an object that appears while a handler is
       being added reaches that handler, in its replay or as an event *)
    ("event-lost-between-replay-and-registration",
       match o, prev with
       | Event r k x, Some p =>
           match k, ob_op p with
           | EDel, _ => true
           | _, AddHandler s h _ =>
               negb win || negb (reg_has tr s h) ||
               saw_object s h x (ob_dels p ++ obs)
           | _, _ => true
           end
       | _, _ => true
       end);
    (* an event reaches every handler registered through an open subscription of the resource *)
    ("event-not-delivered",
       match o with
       | Event r k x =>
           match snd (cache_apply k x (t_store tr r)) with
           | Some n =>
               forallb (fun p =>
                  negb (Nat.eqb (snd p) r) ||
                  forallb (fun hb => Nat.leb 1 (countd (fst p, fst hb, n) obs)) (t_reg tr (fst p)))
                 (t_open tr)
           | None => true
           end
       | _ => true
       end);
    (* ONE underlying informer per resource: never two watches, never a second
       LIST while the resource is subscribed to, a new LIST for a fresh start *)
    ("more-than-one-informer",
       forallb (fun r => Z.leb (nthz (ob_watch ob) r) 1) (seq 0 nres));
    ("extra-informer-started",
       forallb (fun r => Z.leb (nthz (ob_lists ob) r) (Z.of_nat (starts_step tr ex o r))) (seq 0 nres));
    ("no-fresh-informer",
       forallb (fun r => negb (seen (ob_lists ob) r) || Z.leb (Z.of_nat (starts_step tr ex o r)) (nthz (ob_lists ob) r)) (seq 0 nres));
    ("informer-not-stopped-after-last-close",
       forallb (fun r => negb (seen (ob_watch ob) r) || negb (Nat.eqb (open_count tr' r) 0) || Z.eqb (nthz (ob_watch ob) r) 0) (seq 0 nres));
    ("informer-stopped-while-subscribed",
       forallb (fun r => negb (seen (ob_watch ob) r) || Nat.eqb (open_count tr' r) 0 || Z.ltb 0 (nthz (ob_watch ob) r)) (seq 0 nres));
    (* no call ever panics (a repeated Close is a no-op) *)
    ("panic", negb (ob_panic ob))
  ].

(* the clauses about the harness's deterministic windows are evaluated first, over
   the whole case: what they flag would otherwise surface under a less specific
   clause at an earlier step *)
Definition win_step (tr : tracker) (ob : C18_obs) : option string :=
  let o := ob_op ob in
  let obs := ob_dels ob in
  first_fail [
    (* once RemoveEventHandlers() has returned, the subscription's handlers receive
       nothing, not even an event whose fan-out was in progress *)
    ("event-delivered-after-removal-returned",
       match o with
       | RemoveHandlers s => forallb (fun d => negb (Nat.eqb (d_sub d) s)) obs
       | _ => true
       end)
  ].

Fixpoint win_steps (wins : list nat) (k : nat) (tr : tracker) (l : list C18_obs) : option string :=
  match l with
  | [] => None
  | ob :: l' =>
      match (if memn k wins then win_step tr ob else None) with
      | Some c => Some (at_step c k)
      | None => win_steps wins (S k) (track_step tr (ob_op ob)) l'
      end
  end.

Fixpoint prop_steps (nres : nat) (wins : list nat) (k : nat) (tr : tracker) (ex : nat -> nat)
                    (prev : option C18_obs) (l : list C18_obs) : option string :=
  match l with
  | [] => None
  | ob :: l' =>
      match prop_step nres tr ex prev (memn k wins) ob with
      | Some c => Some (at_step c k)
      | None => prop_steps nres wins (S k) (track_step tr (ob_op ob)) (starts_step tr ex (ob_op ob)) (Some ob) l'
      end
  end.

(* ---- model vs implementation ---- *)
Definition sub_own_registered (st : state) (d : delivery) : bool :=
  match st_sub st (d_sub d) with
  | Some i => has_own (d_sub d) (d_h d) (i_hs (st_inf st i))
  | None => false
  end.
(* what is left of the observation once the model's deliveries are taken out
   must be resyncs of handlers with an own timer, about an object of their cache *)
Definition extra_ok (st st' : state) (d : delivery) : bool :=
  match d_note d with
  | NSync x => (sub_own_registered st d || sub_own_registered st' d) &&
               (memn x (sub_cache st (d_sub d)) || memn x (sub_cache st' (d_sub d)))
  | _ => false
  end.

Definition model_step (nres : nat) (st : state) (ob : C18_obs) : option string :=
  let res := step st (ob_op ob) in
  let st' := r_st res in
  first_fail [
    ("panic", Bool.eqb (r_panic res) (ob_panic ob));
    ("deliveries-missing", match msub (ob_dels ob) (r_out res) with Some _ => true | None => false end);
    ("deliveries-extra", match msub (ob_dels ob) (r_out res) with
                         | Some rest => forallb (extra_ok st st') rest
                         | None => true
                         end);
    ("running", forallb (fun r => negb (seen (ob_watch ob) r) || Bool.eqb (running st' r) (Z.ltb 0 (nthz (ob_watch ob) r))) (seq 0 nres));
    ("generation", forallb (fun r => negb (seen (ob_lists ob) r) || Z.eqb (Z.of_nat (generation st' r)) (nthz (ob_lists ob) r)) (seq 0 nres))
  ].

Fixpoint model_steps (nres : nat) (k : nat) (st : state) (l : list C18_obs) : option string :=
  match l with
  | [] => None
  | ob :: l' =>
      match model_step nres st ob with
      | Some c => Some (at_step c k)
      | None => model_steps nres (S k) (r_st (step st (ob_op ob))) l'
      end
  end.

Definition C18_check (c : C18_case) : verdict :=
  let nres := zn (c_nres c) in
  (* an operation that never returns (deadlock) is the most specific thing to say *)
  if Z.leb 0 (c_hung c) then PROPFAIL (at_step "operation-never-returned" (zn (c_hung c))) else
  match win_steps (map zn (c_windows c)) 0 tr0 (c_steps c) with
  | Some cl => PROPFAIL cl
  | None =>
  match prop_steps nres (map zn (c_windows c)) 0 tr0 (fun _ => 0) None (c_steps c) with
  | Some cl => PROPFAIL cl
  | None =>
      match c_anomalies c with
      | z :: _ => PROPFAIL (anomaly_name z)
      | [] =>
      match model_steps nres 0 init (c_steps c) with
      | Some w => DIVERGE w
      | None => OK
      end
      end
  end
  end.
