(* Composite_check.v — correspondence between Model/Composite.v and the real
   composite controller: the model is run against the answers the
   implementation received; calls are compared per target. *)
From MC Require Export Model.Verdict Model.Composite.
Local Open Scope list_scope.

Record ev := mkEv { e_call : call; e_ans : answer; e_pre : json; e_post : json }.
Record round := mkRound { r_cache : cache; r_events : list ev; r_result : sync_result }.
Record ccase := mkCase { c_cfg : ccfg; c_rounds : list round }.

(* identity of a call target *)
Definition call_key (c : call) : string :=
  match c with
  | CApi q => ((match q_verb q with
               | VGet => "get" | VCreate => "create" | VUpdate => "update" | VUpdateStatus => "updatestatus"
               | VDelete => "delete" | VPatchJson => "patch-json" | VPatchApply => "patch-apply" end)
               ++ " " ++ q_res q ++ " " ++ q_ns q ++ "/" ++ q_name q)%string
  | CHook HSync _ => "hook sync"
  | CHook HFinalize _ => "hook finalize"
  | CHook HCustomize _ => "note"
  end.

Definition req_eqb (a b : req) : bool :=
  verb_eqb (q_verb a) (q_verb b) && String.eqb (q_res a) (q_res b) && String.eqb (q_ns a) (q_ns b) &&
  String.eqb (q_name a) (q_name b) && jeqb (q_body a) (q_body b) &&
  String.eqb (q_uid_pre a) (q_uid_pre b) && String.eqb (q_prop a) (q_prop b).

Definition call_eqb (a b : call) : bool :=
  match a, b with
  | CApi x, CApi y => req_eqb x y
  | CHook k1 b1, CHook k2 b2 => hook_kind_eqb k1 k2 && jeqb b1 b2
  | _, _ => false
  end.

(* the n-th logged answer for a key *)
Fixpoint nth_answer (key : string) (n : nat) (log : list ev) : option answer :=
  match log with
  | [] => None
  | e :: log' =>
      if String.eqb (call_key (e_call e)) key
      then match n with O => Some (e_ans e) | S n' => nth_answer key n' log' end
      else nth_answer key n log'
  end.

Definition count_key (key : string) (hist : list (call * answer)) : nat :=
  List.length (filter (fun p => String.eqb (call_key (fst p)) key) hist).

Definition is_note (c : call) : bool := match c with CHook HCustomize _ => true | _ => false end.

Definition env_of_log (log : list ev) : env :=
  fun hist c =>
    if is_note c then AHookErr else
    match nth_answer (call_key c) (count_key (call_key c) hist) log with
    | Some a => a
    | None => AFail EOther
    end.

Definition sync_result_eqb (a b : sync_result) : bool :=
  match a, b with
  | SDone, SDone | SErr, SErr | SPanic, SPanic => true
  | SRequeue x, SRequeue y => Z.eqb x y
  | _, _ => false
  end.

(* per-key sequences of calls agree *)
Definition calls_for (key : string) (l : list call) : list call :=
  filter (fun c => String.eqb (call_key c) key) l.

Fixpoint calls_eqb (a b : list call) : bool :=
  match a, b with
  | [], [] => true
  | x :: a', y :: b' => call_eqb x y && calls_eqb a' b'
  | _, _ => false
  end.

Definition round_diverges (c : ccfg) (r : round) : option string :=
  let p := sync c (r_cache r) in
  let '(hist, res) := run p (env_of_log (r_events r)) [] in
  let mcalls := filter (fun c => negb (is_note c)) (map fst (rev hist)) in
  let icalls := map e_call (r_events r) in
  if negb (sync_result_eqb res (r_result r)) then Some "result" else
  if negb (Nat.eqb (List.length mcalls) (List.length icalls)) then Some "call-count" else
  if forallb (fun c => calls_eqb (calls_for (call_key c) mcalls) (calls_for (call_key c) icalls)) icalls
  then None else Some "call-content".

Fixpoint first_divergence (c : ccfg) (rs : list round) (i : nat) : option string :=
  match rs with
  | [] => None
  | r :: rs' => match round_diverges c r with
                | Some w => Some (w ++ "@round" ++ string_of_Z (Z.of_nat i))%string
                | None => first_divergence c rs' (S i) end
  end.

Definition corr_check (c : ccase) : verdict :=
  match first_divergence (c_cfg c) (c_rounds c) 0 with
  | Some w => DIVERGE w
  | None => OK
  end.

Definition C02_check := corr_check.
