(* Composite_check.v — correspondence between Model/Composite.v and the real
   composite controller: the model is run against the answers the
   implementation received; calls are compared per target. *)
From MC Require Import Generated.
From MC Require Import Model.ApplyLaws.
From MC Require Export Model.Verdict Model.Composite Model.TracePreds Model.Safe Model.Rolling.
Local Open Scope list_scope.

Record round := mkRound { r_cache : cache; r_events : list ev; r_result : sync_result;
                          r_queue : list (string * string * Z);   (* op, key, delay in ms *)
                          r_key : string;
                          r_cache_mutated : string }.   (* "" or which cached object a sync changed *)
Record ccase := mkCase { c_cfg : ccfg; c_rounds : list round;
                         c_final : list json;        (* the store after the last round *)
                         c_flags : list string }.    (* scenario features *)

(* identity of a call target *)
Definition call_key (c : call) : string :=
  match c with
  | CApi q => ((match q_verb q with
               | VGet => "get" | VCreate => "create" | VUpdate => "update" | VUpdateStatus => "updatestatus"
               | VDelete => "delete" | VPatchJson => "patch-json" | VPatchApply => "patch-apply" end)
               ++ " " ++ q_res q ++ " " ++ q_ns q ++ "/" ++ q_name q)%string
  | CHook HSync _ => "hook sync"
  | CHook HFinalize _ => "hook finalize"
  | CHook HCustomize _ => "hook customize"
  end.

(* equality of a value the model holds in memory with the same value after it went over the wire:
   an integral float64 (1.0) is serialised as 1 and read back as an integer *)
Fixpoint jeqw (a b : json) : bool :=
  match a, b with
  | JNull, JNull => true
  | JBool x, JBool y => Bool.eqb x y
  | JInt x, JInt y => Z.eqb x y
  | JFloat x, JFloat y => String.eqb x y
  | JFloat x, JInt y => String.eqb x (string_of_Z y)
  | JInt x, JFloat y => String.eqb (string_of_Z x) y
  | JStr x, JStr y => String.eqb x y
  | JText x, JText y => jeqw x y
  | JArr x, JArr y =>
      (fix go (x y : list json) : bool :=
         match x, y with
         | [], [] => true
         | a :: x', b :: y' => jeqw a b && go x' y'
         | _, _ => false
         end) x y
  | JObj x, JObj y =>
      Nat.eqb (List.length x) (List.length y) &&
      (fix go (x : amap) : bool :=
         match x with
         | [] => true
         | (k, v) :: x' =>
             match alookup k y with Some v' => jeqw v v' | None => false end && go x'
         end) x
  | _, _ => false
  end.

(* the names inside a ControllerRevision are appended while ranging over Go maps: compared as sets *)
Fixpoint insert_str (x : string) (l : list string) : list string :=
  match l with
  | [] => [x]
  | y :: l' => if String.leb x y then x :: l else y :: insert_str x l'
  end.
Definition sort_strs (l : list string) : list string := fold_right insert_str [] l.

Fixpoint insert_rck (x : rck) (l : list rck) : list rck :=
  match l with
  | [] => [x]
  | y :: l' => if String.leb (ck_kind x ++ "." ++ ck_group x) (ck_kind y ++ "." ++ ck_group y) then x :: l else y :: insert_rck x l'
  end.

Definition norm_rev_body (j : json) : json :=
  match j with
  | JObj m =>
      match alookup "children" m with
      | Some (JArr l) =>
          let cks := map (fun ck => let r := rck_of_json ck in mkRck (ck_group r) (ck_kind r) (sort_strs (ck_names r))) l in
          JObj (aset "children" (JArr (map json_of_rck (fold_right insert_rck [] cks))) m)
      | _ => j
      end
  | _ => j
  end.

(* which unhappy child a RolloutWaiting message names depends on Go map iteration order: the text is not compared *)
Definition norm_waiting (j : json) : json :=
  match j with
  | JObj m =>
      match alookup "status" m with
      | Some (JObj sm) =>
          match alookup "conditions" sm with
          | Some (JArr l) =>
              JObj (aset "status" (JObj (aset "conditions"
                (JArr (map (fun cnd => match cnd with
                         | JObj cm => if String.eqb (cond_field cnd "reason") "RolloutWaiting"
                                      then JObj (aremove "message" cm) else cnd
                         | _ => cnd end) l)) sm)) m)
          | _ => j end
      | _ => j end
  | _ => j
  end.

Definition req_eqb (a b : req) : bool :=
  verb_eqb (q_verb a) (q_verb b) && String.eqb (q_res a) (q_res b) && String.eqb (q_ns a) (q_ns b) &&
  String.eqb (q_name a) (q_name b) &&
  (if String.eqb (q_res a) rev_res then jeqb (norm_rev_body (q_body a)) (norm_rev_body (q_body b))
   else jeqw (norm_waiting (q_body a)) (norm_waiting (q_body b))) &&
  String.eqb (q_uid_pre a) (q_uid_pre b) && String.eqb (q_prop a) (q_prop b).

Definition call_eqb (a b : call) : bool :=
  match a, b with
  | CApi x, CApi y => req_eqb x y
  | CHook k1 b1, CHook k2 b2 => hook_kind_eqb k1 k2 && jeqb b1 b2
  | _, _ => false
  end.

(* the n-th logged answer for a key *)
Fixpoint nth_answer (key : string) (n : nat) (log : list ev) : option answer :=
  match log with
  | [] => None
  | e :: log' =>
      if String.eqb (call_key (e_call e)) key
      then match n with O => Some (e_ans e) | S n' => nth_answer key n' log' end
      else nth_answer key n log'
  end.

Definition count_key (key : string) (hist : list (call * answer)) : nat :=
  List.length (filter (fun p => String.eqb (call_key (fst p)) key) hist).

Definition is_note (c : call) : bool :=
  match c with CHook HCustomize (JObj (("note", _) :: _)) => true | _ => false end.

(* hook calls of one sync run in parallel (one per live revision): answers are matched by request content *)
Fixpoint nth_answer_eq (c : call) (n : nat) (log : list ev) : option answer :=
  match log with
  | [] => None
  | e :: log' =>
      if call_eqb (e_call e) c
      then match n with O => Some (e_ans e) | S n' => nth_answer_eq c n' log' end
      else nth_answer_eq c n log'
  end.

Definition env_of_log (log : list ev) : env :=
  fun hist c =>
    if is_note c then AHookErr else
    match c with
    | CHook _ _ =>
        match nth_answer_eq c (List.length (filter (fun p => call_eqb (fst p) c) hist)) log with
        | Some a => a | None => AHookErr end
    | _ =>
    match nth_answer (call_key c) (count_key (call_key c) hist) log with
    | Some a => a
    | None => AFail EOther
    end
    end.

Definition sync_result_eqb (a b : sync_result) : bool :=
  match a, b with
  | SDone, SDone | SErr, SErr | SPanic, SPanic => true
  | SRequeue x, SRequeue y => Z.eqb x y
  | _, _ => false
  end.

(* per-key sequences of calls agree *)
Definition calls_for (key : string) (l : list call) : list call :=
  filter (fun c => String.eqb (call_key c) key) l.

Fixpoint calls_eqb (a b : list call) : bool :=
  match a, b with
  | [], [] => true
  | x :: a', y :: b' => call_eqb x y && calls_eqb a' b'
  | _, _ => false
  end.

(* parallel hook calls: compared as multisets *)
Fixpoint remove_call (c : call) (l : list call) : option (list call) :=
  match l with
  | [] => None
  | x :: l' => if call_eqb c x then Some l'
               else match remove_call c l' with Some r => Some (x :: r) | None => None end
  end.
Fixpoint calls_perm_eqb (a b : list call) : bool :=
  match a with
  | [] => match b with [] => true | _ => false end
  | x :: a' => match remove_call x b with Some b' => calls_perm_eqb a' b' | None => false end
  end.
Definition is_hook_call (c : call) : bool := match c with CHook _ _ => true | _ => false end.

Definition round_diverges (proj : ccfg -> json -> call -> bool) (with_result : bool) (c : ccfg) (r : round) : option string :=
  let p := sync_r c (r_cache r) in
  let '(hist, res) := run p (env_of_log (r_events r)) [] in
  let parent := match k_parent (r_cache r) with Some p => p | None => JNull end in
  let mcalls := filter (proj c parent) (filter (fun c => negb (is_note c)) (map fst (rev hist))) in
  let icalls := filter (proj c parent) (map e_call (r_events r)) in
  if with_result && negb (sync_result_eqb res (r_result r)) then Some "result" else
  if negb (Nat.eqb (List.length mcalls) (List.length icalls)) then Some "call-count" else
  if forallb (fun c => if is_hook_call c
                       then calls_perm_eqb (calls_for (call_key c) mcalls) (calls_for (call_key c) icalls)
                       else calls_eqb (calls_for (call_key c) mcalls) (calls_for (call_key c) icalls)) icalls
  then None else Some "call-content".

Fixpoint first_divergence proj wr (c : ccfg) (rs : list round) (i : nat) : option string :=
  match rs with
  | [] => None
  | r :: rs' => match round_diverges proj wr c r with
                | Some w => Some (w ++ "@round" ++ string_of_Z (Z.of_nat i))%string
                | None => first_divergence proj wr c rs' (S i) end
  end.

(* the environment assumption of the theorems (Safe.sane) holds of what the simulator answered *)
Definition env_sane (c : ccase) : bool :=
  forallb (fun r => forallb (fun e => saneb (e_call e) (e_ans e)) (r_events r)) (c_rounds c).

Definition corr_check proj wr (c : ccase) : verdict :=
  if negb (env_sane c) then DIVERGE "environment-assumption-sane" else
  match first_divergence proj wr (c_cfg c) (c_rounds c) 0 with
  | Some w => DIVERGE w
  | None => OK
  end.

(* which calls each property's correspondence looks at *)
Definition proj_all (c : ccfg) (p : json) (cl : call) : bool := true.
Definition proj_writes (c : ccfg) (p : json) (cl : call) : bool :=
  match cl with CApi q => is_write q | _ => false end.
Definition proj_hooks (c : ccfg) (p : json) (cl : call) : bool :=
  match cl with CHook _ _ => true | _ => false end.
Definition proj_child_writes (c : ccfg) (p : json) (cl : call) : bool :=
  match cl with CApi q => is_write q && negb (targets_parent c p q) | _ => false end.
Definition proj_claims (c : ccfg) (p : json) (cl : call) : bool :=
  match cl with
  | CApi q => (verb_eqb (q_verb q) VUpdate && negb (targets_parent c p q)) || (verb_eqb (q_verb q) VGet && targets_parent c p q)
  | _ => false end.
Definition proj_parent (c : ccfg) (p : json) (cl : call) : bool :=
  match cl with CApi q => targets_parent c p q | CHook _ _ => false end.
Definition proj_finalizer (c : ccfg) (p : json) (cl : call) : bool :=
  match cl with
  | CApi q => (targets_parent c p q && verb_eqb (q_verb q) VUpdate) || (verb_eqb (q_verb q) VCreate)
  | CHook _ _ => true end.

(* property predicates are evaluated on the implementation's own trace first:
   a PROPFAIL is a violation by the code, whatever the model says *)
Fixpoint first_round_fail (f : round -> option string) (rs : list round) (i : nat) : option string :=
  match rs with
  | [] => None
  | r :: rs' => match f r with
                | Some w => Some (w ++ "@round" ++ string_of_Z (Z.of_nat i))%string
                | None => first_round_fail f rs' (S i) end
  end.

Definition check_with (f : ccfg -> round -> option string) proj wr (c : ccase) : verdict :=
  match first_round_fail (f (c_cfg c)) (c_rounds c) 0 with
  | Some w => PROPFAIL w
  | None => if ssa (c_cfg c) then OK   (* the server-side-apply memo is process state outside the model *)
            else corr_check proj wr c
  end.

Definition with_parent (f : json -> option string) (r : round) : option string :=
  match k_parent (r_cache r) with Some p => f p | None => None end.

Definition orelse (a b : option string) : option string := match a with Some s => Some s | None => b end.

(* the children the controller holds after claiming, recomputed from cache and events (as C03) *)
Definition observed_of (c : ccfg) (r : round) (sent : json) : umap :=
  match make_selector c sent with
  | None => []
  | Some sel =>
      fold_left (fun m kc =>
        fold_left (fun m o => uinsert o m)
          (filter (fun o => visible c sent o && sel_matches sel (get_labels o) &&
                            (controlled_by o (get_uid sent) ||
                             (is_orphan o && negb (is_deleting o) && negb (is_deleting sent) &&
                              adopted_in c kc (get_uid sent) o (before_hook (r_events r)))))
                  (cached (r_cache r) (ch_res kc)))
          (uinit (ch_api_version kc) (ch_kind kc) m)) (kids c) []
  end.

(* an ownership edit lands on the object that was observed: if the cached object of that name has another
   UID than the object the accepted write changed, a new incarnation was adopted / released unseen *)
Definition C04_incarnation (c : ccfg) (k : cache) (parent : json) (evs : list ev) : option string :=
  let puid := get_uid parent in
  first_some (fun e =>
    match is_api e with
    | Some q =>
        match child_res_of c q with
        | Some _ =>
            if verb_eqb (q_verb q) VUpdate && accepted e &&
               negb (Bool.eqb (controlled_by (e_pre e) puid) (controlled_by (e_post e) puid)) then
              match find_cached c k q with
              | Some o => if String.eqb (get_uid o) (get_uid (e_pre e)) then None
                          else Some "ownership-edit-hit-another-incarnation"
              | None => None
              end
            else None
        | None => None
        end
    | None => None
    end) evs.

(* every delete of a ControllerRevision is conditioned on the UID of the revision that was observed
   (the lister's), so a same-named object created later is never deleted *)
Definition C02_revision_delete (r : round) : option string :=
  first_some (fun e =>
    match is_api e with
    | Some q =>
        if String.eqb (q_res q) rev_res && verb_eqb (q_verb q) VDelete then
          match find (fun o => String.eqb (get_name o) (q_name q) && String.eqb (get_ns o) (q_ns q))
                     (cached (r_cache r) rev_res) with
          | Some o => if String.eqb (q_uid_pre q) (get_uid o) then None
                      else Some "revision-delete-precondition-is-not-the-observed-uid"
          | None => Some "revision-delete-of-an-unobserved-object"
          end
        else None
    | None => None
    end) (r_events r).

(* every accepted update of a ControllerRevision targets a revision the parent controls, or is the
   adoption of an orphan (whose rules C04 states); a same-named revision controlled by someone else is
   never overwritten *)
Definition C02_revision_write (r : round) : option string :=
  match k_parent (r_cache r) with
  | None => None
  | Some p =>
      let puid := get_uid p in
      first_some (fun e =>
        match is_api e with
        | Some q =>
            if String.eqb (q_res q) rev_res && verb_eqb (q_verb q) VUpdate && accepted e then
              if controlled_by (e_pre e) puid then None else
              if is_orphan (e_pre e) && controlled_by (e_post e) puid then None else
              Some "revision-not-controlled-by-the-parent-updated"
            else None
        | None => None
        end) (r_events r)
  end.

Definition C02_check (c : ccase) : verdict :=
  match first_round_fail (fun r => orelse (C02_round (c_cfg c) (r_cache r) (r_events r))
                                    (orelse (C02_revision_delete r)
                                    (orelse (C02_revision_write r)
                                            (match k_parent (r_cache r) with
                                             | Some p => C04_incarnation (c_cfg c) (r_cache r) p (r_events r)
                                             | None => None end)))) (c_rounds c) 0 with
  | Some w => PROPFAIL w
  | None => if ssa (c_cfg c) then OK   (* the server-side-apply memo is process state outside the model *)
            else corr_check proj_writes false c
  end.

(* the cache of a declared child resource holds objects of that resource's type only (two declared
   resources never share one informer): otherwise the hook is shown objects of an undeclared type *)
Definition C03_cache_typed (c : ccfg) (k : cache) : option string :=
  first_some (fun kc =>
    if forallb (fun o => String.eqb (get_api_version o) (ch_api_version kc) && String.eqb (get_kind o) (ch_kind kc))
               (cached k (ch_res kc))
    then None else Some "cache-of-a-child-resource-holds-objects-of-another-type") (kids c).

Definition C03_check := check_with (fun c r =>
  orelse (C03_cache_typed c (r_cache r))
    (orelse (C03_round c (r_cache r) (r_events r))
         (with_parent (fun p => C03_namespace_default c p (r_events r)) r))) proj_hooks false.

(* the claiming rules hold for ControllerRevisions as for children: an orphaned revision is adopted only
   after a fresh, uncached read showed the parent alive with the same UID; a parent being deleted adopts nothing *)
Definition C04_revision_adoption (c : ccfg) (parent : json) (evs : list ev) : option string :=
  let puid := get_uid parent in
  before_each (fun seen e =>
    match is_api e with
    | Some q =>
        if String.eqb (q_res q) rev_res && verb_eqb (q_verb q) VUpdate && accepted e &&
           is_orphan (e_pre e) && controlled_by (e_post e) puid
        then
          if Nat.ltb 1 (controller_count (e_post e)) then Some "two-controller-references" else
          if is_deleting parent then Some "deleting-parent-adopted-revision" else
          if match revision_selector c parent with
             | Some sel => negb (sel_matches sel (get_labels (e_pre e)))
             | None => true end
          then Some "revision-adopted-without-matching-selector" else
          if negb (existsb (fun e' => match is_api e', e_ans e' with
                                      | Some q', AObj fresh => targets_parent c parent q' && verb_eqb (q_verb q') VGet &&
                                                               String.eqb (get_uid fresh) puid && negb (is_deleting fresh)
                                      | _, _ => false end) seen)
          then Some "revision-adopted-without-live-parent-recheck" else None
        else None
    | None => None
    end) [] evs.

(* completeness of release: when the sync gets as far as the hook, every cached child the parent controls
   that no longer matches the parent's selector has had its release attempted (a live parent only) *)
Definition C04_release_complete (c : ccfg) (k : cache) (parent : json) (evs : list ev) : option string :=
  match hook_events evs, make_selector c parent with
  | _ :: _, Some sel =>
      if is_deleting parent then None else
      let puid := get_uid parent in
      first_some (fun kc =>
        first_some (fun o =>
          if controlled_by o puid && negb (sel_matches sel (get_labels o)) then
            let ns := eff_ns (ch_namespaced kc) (get_ns o) in
            if existsb (fun e => match is_api e with
                                 | Some q => String.eqb (q_res q) (ch_res kc) && String.eqb (q_ns q) ns &&
                                             String.eqb (q_name q) (get_name o)
                                 | None => false end) (before_hook evs)
            then None else Some "owned-child-that-stopped-matching-not-released"
          else None) (cached k (ch_res kc))) (kids c)
  | _, _ => None
  end.

(* ... and release: an owned revision in the cache that no longer matches the parent's selector (all of it:
   labels and expressions, plus the parent-type labels) has had its release attempted before the hook is
   called, and a revision that does match is not released *)
Definition C04_revision_release (c : ccfg) (k : cache) (parent : json) (evs : list ev) : option string :=
  match revision_selector c parent with
  | None => None
  | Some sel =>
      let puid := get_uid parent in
      orelse
        (first_some (fun e =>
           match is_api e with
           | Some q =>
               if String.eqb (q_res q) rev_res && verb_eqb (q_verb q) VUpdate && accepted e &&
                  controlled_by (e_pre e) puid && negb (controlled_by (e_post e) puid) &&
                  sel_matches sel (get_labels (e_pre e)) && negb (is_deleting parent)
               then Some "matching-revision-released" else None
           | None => None end) evs)
        (match hook_events evs with
         | _ :: _ =>
             if is_deleting parent then None else
             first_some (fun o =>
               if (String.eqb (get_ns parent) "" || String.eqb (get_ns o) (get_ns parent)) &&
                  controlled_by o puid && negb (sel_matches sel (get_labels o)) then
                 if existsb (fun e => match is_api e with
                                      | Some q => String.eqb (q_res q) rev_res && String.eqb (q_name q) (get_name o)
                                      | None => false end) (before_hook evs)
                 then None else Some "owned-revision-that-stopped-matching-not-released"
               else None) (cached k rev_res)
         | [] => None end)
  end.

Definition C04_check := check_with (fun c r =>
  orelse (with_parent (fun p => orelse (C04_round c (r_cache r) p (r_events r))
                                  (orelse (C04_revision_adoption c p (r_events r))
                                   (orelse (C04_revision_release c (r_cache r) p (r_events r))
                                     (orelse (C04_incarnation c (r_cache r) p (r_events r))
                                             (C04_release_complete c (r_cache r) p (r_events r)))))) r)
         (C04_label_invariant c (r_events r))) proj_claims false.

(* the desired children of the round as child management receives them
   (namespace defaulted, controller-uid label added under selector generation) *)
Definition round_desired (c : ccfg) (evs : list ev) : option (json * list (option json)) :=
  match round_hook evs with
  | None => None
  | Some (_, body, hr) =>
      let sent := jget "parent" (obj_map body) in
      match desired_map (hr_children hr) [], make_selector c sent with
      | Some d0, Some sel =>
          match enforce_labels c sent sel (uobjects d0) with
          | Some ds => Some (sent, map Some ds)
          | None => None end
      | _, _ => None
      end
  end.

Definition C06_round (c : ccfg) (r : round) : option string :=
  match round_desired c (r_events r) with
  | None => None
  | Some (sent, ds) =>
      orelse (first_some (C06_event_ok c (r_cache r) ds) (after_hook (r_events r)))
             (match r_result r with
              | SDone => if (negb (is_deleting sent) || should_finalize c sent) &&
                            negb (match round_hook (r_events r) with Some (_, _, hr) => hr_finalized hr | None => true end)
                         then C06_complete c (r_cache r) sent (observed_of c r sent) ds (after_hook (r_events r))
                         else None
              | _ => None end)
  end.
Definition C06_check := check_with C06_round proj_child_writes false.

(* without a finalize hook a finalizer left on the parent (by an earlier configuration) is taken off
   first thing, whether or not the parent is pending deletion: the sync reads or writes the parent
   before it calls the hook (an error there ends the sync) *)
Definition C10_leftover (c : ccfg) (parent : json) (evs : list ev) : option string :=
  if has_finalize c || negb (has_finalizer parent (finalizer_name c)) then None else
  match evs with
  | [] => None
  | _ =>
      if existsb (fun e => match is_api e with
                           | Some q => targets_parent c parent q &&
                                       (verb_eqb (q_verb q) VGet || verb_eqb (q_verb q) VUpdate)
                           | None => false end) (before_hook evs)
      then None else Some "leftover-finalizer-not-removed"
  end.

Definition C10_check := check_with (fun c r =>
  with_parent (fun p => orelse (C10_round c (r_cache r) p (r_events r))
                          (orelse (C10_leftover c p (r_events r)) (C10_handoff c (r_events r)))) r) proj_finalizer false.

Definition C11_check := check_with (fun c r =>
  with_parent (fun p => orelse (C11_round c p (r_events r) (r_result r))
                          (orelse (C11_written_when_different c p (r_events r) (r_result r)) (C11_attempted c p (r_events r)))) r) proj_parent true.

(* C13: no answer makes the worker panic; a rejected answer causes no child write *)
Definition C13_round (c : ccfg) (r : round) : option string :=
  match r_result r with
  | SPanic => Some "panic"
  | SErr =>
      match hook_events (r_events r), round_desired c (r_events r) with
      | _ :: _, None =>
          if child_write_seen c (r_events r) then Some "child-write-after-rejected-response" else None
      | _, _ => None
      end
  | _ => None
  end.
Definition proj_none (c : ccfg) (p : json) (cl : call) : bool := false.
Definition C13_check := check_with C13_round proj_child_writes true.

(* C12: requeue discipline, nothing swallowed, one bad child blocks nothing *)
Definition C12_complete (c : ccfg) (r : round) : option string :=
  match round_desired c (r_events r) with
  | None => None
  | Some (sent, ds) =>
      if status_phase_seen c sent (r_events r) && (negb (is_deleting sent) || should_finalize c sent) &&
         negb (match round_hook (r_events r) with Some (_, _, hr) => hr_finalized hr | None => true end)
      then C06_complete c (r_cache r) sent (observed_of c r sent) ds (after_hook (r_events r))
      else None
  end.

Definition C12_check := check_with (fun c r =>
  orelse (with_parent (fun p => orelse (C12_round c p (r_key r) (r_events r) (r_result r) (r_queue r))
                                        (* a refused status write is not reported as success (nothing would retry it) *)
                                        (C11_written_when_different c p (r_events r) (r_result r))) r)
         (orelse (C12_complete c r)
                 (if child_write_seen c (r_events r) &&
                     negb (match k_parent (r_cache r) with Some p => status_phase_seen c p (r_events r) | None => true end)
                  then Some "status-not-attempted-after-child-failure" else None))) proj_all true.

(* C19, at the controller: what the sync does with the hook transport's verdicts (429 => requeue after the
   advertised delay and no error; any other failure => error and back-off), for the plain path and for the
   parallel per-revision calls of a rolling update.  Same judgement as C12's. *)
Definition C19c_check := C12_check.

(* ---------- C08: healthy rollouts finish and clean up; never wait on a healthy child ---------- *)
Definition status_write_cond (c : ccfg) (parent : json) (evs : list ev) : option json :=
  match rev (filter (fun e => match is_api e with
                              | Some q => targets_parent c parent q && verb_eqb (q_verb q) VUpdateStatus
                              | None => false end) evs) with
  | e :: _ => match is_api e with
              | Some q => status_condition (q_body q) "Updated"
              | None => None end
  | [] => None
  end.

Definition str_prefix (p s : string) : bool := String.prefix p s.

(* the message of a RolloutWaiting condition names a child; it must really be absent / stale / unhealthy *)
Definition C08_no_wait_on_healthy (c : ccfg) (r : round) : option string :=
  match k_parent (r_cache r) with
  | None => None
  | Some parent =>
      match status_write_cond c parent (r_events r), round_desired c (r_events r) with
      | Some cond, Some (sent, ds) =>
          if negb (String.eqb (cond_field cond "reason") "RolloutWaiting") then None else
          let msg := cond_field cond "message" in
          let observed := observed_of c r sent in
          first_some (fun g => match g with (av, kd, os) =>
            first_some (fun p =>
              let o := snd p in
              let name := relative_name (get_ns sent) o in
              if str_prefix ("missing child " ++ kd ++ " " ++ name)%string msg &&
                 String.eqb msg ("missing child " ++ kd ++ " " ++ name)%string
              then Some "rollout-waits-on-child-that-exists" else None) os end) observed
      | _, _ => None
      end
  end.

Definition owned_by (puid : string) (o : json) : bool := controlled_by o puid.

Definition C08_final (c : ccase) : option string :=
  if negb (mem_str "fair" (c_flags c)) then None else
  let cfg := c_cfg c in
  match find (fun o => String.eqb (get_kind o) (p_kind cfg)) (c_final c) with
  | None => None
  | Some parent =>
      let puid := get_uid parent in
      if is_deleting parent then None else
      let revs := filter (fun o => String.eqb (get_kind o) "ControllerRevision" && owned_by puid o) (c_final c) in
      let image := jget "image" (obj_map (jget "spec" (obj_map parent))) in
      let stale := filter (fun o => owned_by puid o && negb (String.eqb (get_kind o) "ControllerRevision") &&
                                    is_rolling cfg (group_of (get_api_version o)) (get_kind o) &&
                                    negb (jeqb (jget "image" (obj_map (jget "spec" (obj_map o)))) image)) (c_final c) in
      if negb (Nat.eqb (List.length stale) 0) then Some "children-not-all-at-latest-after-fair-rollout" else
      if negb (Nat.eqb (List.length revs) 1) then Some "old-revisions-not-cleaned-up" else
      match status_condition parent "Updated" with
      | Some cond => if String.eqb (cond_field cond "status") "True" then None else Some "updated-condition-not-true-after-fair-rollout"
      | None => Some "updated-condition-missing"
      end
  end.

Definition C08_check (c : ccase) : verdict :=
  match C08_final c with
  | Some w => PROPFAIL w
  | None => check_with (fun cfg r => C08_no_wait_on_healthy cfg r) proj_all true c
  end.

(* ================= C07 / C09: rolling updates on the implementation's trace ================= *)
Definition rev_events (evs : list ev) : list ev :=
  filter (fun e => match is_api e with Some q => String.eqb (q_res q) rev_res && is_write q | None => false end) evs.

(* revisions the parent holds before the round (cache) and after it (cache overlaid with this round's accepted writes) *)
Definition revs_before (c : ccfg) (r : round) (sent : json) : list revision :=
  map revision_of_json
      (filter (fun o => controlled_by o (get_uid sent) &&
                        (String.eqb (get_ns sent) "" || String.eqb (get_ns o) (get_ns sent)))
              (cached (r_cache r) rev_res)).

Definition revs_after (c : ccfg) (r : round) (sent : json) : list revision :=
  let before := revs_before c r sent in
  fold_left (fun (acc : list revision) (e : ev) =>
    match is_api e with
    | Some q =>
        if negb (accepted e) then acc else
        match q_verb q with
        | VDelete => filter (fun x => negb (String.eqb (rev_name x) (q_name q))) acc
        | VCreate => acc ++ [revision_of_json (q_body q)]
        | VUpdate =>
            if controlled_by (q_body q) (get_uid sent)
            then map (fun x => if String.eqb (rev_name x) (q_name q) then revision_of_json (q_body q) else x) acc
            else acc
        | _ => acc
        end
    | None => acc
    end) (rev_events (r_events r)) before.

Definition is_latest_rev (c : ccfg) (sent : json) (x : revision) : bool :=
  match make_patch (obj_map sent) (field_paths c) [] with
  | Some lp => jeqb (rev_patch x) (JObj lp)
  | None => false
  end.

Definition names_of (c : ccfg) (x : revision) : list claim_key :=
  flat_map (fun ck => if is_rolling c (ck_group ck) (ck_kind ck)
                      then map (fun n => (ck_group ck, ck_kind ck, n)) (ck_names ck) else []) (rev_children x).

Definition ck_mem (k : claim_key) (l : list claim_key) : bool := existsb (ck_eqb k) l.

(* the hook answer given for the parent as revision x sees it *)
Definition answer_for (c : ccfg) (sent : json) (x : revision) (evs : list ev) : option hook_resp :=
  let pview := if is_latest_rev c sent x then Some sent
               else match rev_patch x with
                    | JObj pm => match apply_patch (obj_map sent) pm (field_paths c) with
                                 | Some p' => Some (JObj p') | None => None end
                    | _ => None end in
  match pview with
  | None => None
  | Some pv =>
      match find (fun e => match e_call e with
                           | CHook _ body => jeqb (jget "parent" (obj_map body)) pv
                           | _ => false end) (hook_events evs) with
      | Some e => match e_ans e with
                  | AHook ans => match decode_composite ans with
                                 | Some hr => Some (mkHR (hr_status hr)
                                                  (map (default_ns (get_ns sent))
                                                       (filter (fun x => match x with Some _ => true | None => false end) (hr_children hr)))
                                                  (hr_resync hr) (hr_finalized hr))
                                 | None => None end
                  | _ => None end
      | None => None
      end
  end.

Definition sent_parent (c : ccfg) (r : round) : option json :=
  (* the latest parent: the hook request whose parent equals what the finalizer step left *)
  match k_parent (r_cache r) with
  | None => None
  | Some p =>
      match find (fun e => match e_call e with
                           | CHook _ body => String.eqb (get_rv (jget "parent" (obj_map body))) (get_rv p) ||
                                             true
                           | _ => false end) (hook_events (r_events r)) with
      | Some e => match e_call e with CHook _ body => Some (jget "parent" (obj_map body)) | _ => None end
      | None => None
      end
  end.

(* among the hook requests of the round, the one carrying the unpatched (latest) parent: the one whose
   revisioned fields equal the live parent's.  All requests share metadata, so take the one whose spec
   equals the cached parent's spec after the finalizer step; fall back to the first. *)
Definition latest_sent (c : ccfg) (r : round) : option json :=
  match k_parent (r_cache r) with
  | None => None
  | Some p =>
      let bodies := flat_map (fun e => match e_call e with CHook _ body => [jget "parent" (obj_map body)] | _ => [] end)
                             (hook_events (r_events r)) in
      match find (fun b => jeqb (jget "spec" (obj_map b)) (jget "spec" (obj_map p))) bodies with
      | Some b => Some b
      | None => match bodies with b :: _ => Some b | [] => None end
      end
  end.

Definition C07_round (c : ccfg) (r : round) : option string :=
  if negb (any_rolling c) then None else
  match latest_sent c r with
  | None => None
  | Some sent =>
      if is_deleting sent && negb (should_finalize c sent) then None else
      let before := revs_before c r sent in
      let after := revs_after c r sent in
      match find (is_latest_rev c sent) after with
      | None => None       (* the revisions were not written (error before): nothing moved *)
      | Some lat_after =>
          match answer_for c sent lat_after (r_events r) with
          | None => None
          | Some lresp =>
              let pns := get_ns sent in
              let l_before := match find (is_latest_rev c sent) before with Some x => names_of c x | None => [] end in
              let l_after := names_of c lat_after in
              let old_claimed := flat_map (names_of c) (filter (fun x => negb (is_latest_rev c sent x)) before) in
              let observed := observed_of c r sent in
              (* what the controller wants of a child: the hook's object plus, under a generated
                 selector, the controller-uid label every child is created with *)
              let ldes := relative_desired pns (hr_children (label_resp c sent lresp)) in
              let up_to_date := fun (k : claim_key) =>
                match k with (g, kd, n) =>
                  match find_observed pns observed g kd n, find_desired ldes g kd n with
                  | Some child, Some d => match apply_update (obj_map child) (obj_map d) with
                                          | Ok m => jeqb (JObj m) child | _ => false end
                  | _, _ => false
                  end end in
              let moved := filter (fun k => negb (ck_mem k l_before) && ck_mem k old_claimed) l_after in
              let gated := filter (fun k => negb (up_to_date k)) moved in
              if Nat.ltb 1 (List.length gated) then Some "more-than-one-gated-move-in-one-sync" else
              (* children not yet on latest, in hook order *)
              let order := flat_map (fun ch => match ch with
                               | Some o => let g := group_of (get_api_version o) in
                                           if is_rolling c g (get_kind o) then [(g, get_kind o, relative_name pns o)] else []
                               | None => [] end) (hr_children lresp) in
              match gated with
              | k :: _ =>
                  (* first in hook order among those not on latest after the free moves *)
                  let pending := filter (fun x => negb (ck_mem x (filter (fun y => negb (ck_eqb y k)) l_after))) order in
                  match pending with
                  | first :: _ => if negb (ck_eqb first k) then Some "gated-move-not-first-in-hook-order" else
                      (* the gate: everything already on latest is observed, up to date and healthy *)
                      let on_latest := filter (fun y => negb (ck_eqb y k)) l_after in
                      if forallb (fun y => match y with (g, kd, n) =>
                            negb (ck_mem y order) ||
                            match find_observed pns observed g kd n with
                            | Some child => up_to_date y && child_status_check (checks_for c g kd) child &&
                                            negb (String.eqb (match has_strategy c g kd with Some kk => ch_method kk | None => "" end) method_rolling_in_place &&
                                                  match observed_generation child with
                                                  | Some og => Z.ltb 0 og && Z.ltb og (get_generation child) | None => false end)
                            | None => false end end) on_latest
                      then
                        (* the move is announced: the Updated condition written in this sync says so *)
                        match k_parent (r_cache r) with
                        | Some parent =>
                            match status_write_cond c parent (r_events r) with
                            | Some cond => if String.eqb (cond_field cond "reason") "RolloutProgressing" then None
                                           else Some "gated-move-not-reported-as-progressing"
                            | None => None
                            end
                        | None => None
                        end
                      else Some "gated-move-although-a-child-on-latest-is-not-healthy"
                  | [] => Some "gated-move-of-undesired-child"
                  end
              | [] => None
              end
          end
      end
  end.

(* the Updated condition says what happened *)
Definition C07_condition (c : ccfg) (r : round) : option string :=
  if negb (any_rolling c) then None else
  match latest_sent c r, k_parent (r_cache r) with
  | Some sent, Some parent =>
      match status_write_cond c parent (r_events r) with
      | None => None
      | Some cond =>
          let reason := cond_field cond "reason" in
          let st := cond_field cond "status" in
          if String.eqb reason "OnLatestRevision" && negb (String.eqb st "True") then Some "condition-complete-but-not-true" else
          if (String.eqb reason "RolloutWaiting" || String.eqb reason "RolloutProgressing") && negb (String.eqb st "False")
          then Some "condition-in-progress-but-not-false" else
          if negb (String.eqb reason "OnLatestRevision" || String.eqb reason "RolloutWaiting" || String.eqb reason "RolloutProgressing")
          then Some "rollout-condition-missing-from-status" else None
      end
  | _, _ => None
  end.

(* C09: revisions first; a failed revision write means no child is touched *)
Definition is_child_content_write (c : ccfg) (e : ev) : bool :=
  match is_api e with
  | Some q => match child_res_of c q with
              | Some _ => match q_verb q with
                          | VCreate | VDelete | VPatchApply | VPatchJson => true
                          | VUpdate => negb (accepted e) || content_changed e
                          | _ => false end
              | None => false end
  | None => false
  end.

(* the claim of the ControllerRevisions (before the hook) is part of "its ControllerRevision writes": an
   adoption or release whose last attempt was refused (the object being gone apart) ends the sync *)
Fixpoint rev_claim_failed (l : list ev) : bool :=
  match l with
  | [] => false
  | e :: l' =>
      (match is_api e with
       | Some q =>
           String.eqb (q_res q) rev_res && verb_eqb (q_verb q) VUpdate && negb (accepted e) &&
           negb (match fail_class e with Some ENotFound | Some EGone => true | _ => false end) &&
           negb (existsb (fun e' => match is_api e' with
                                    | Some q' => String.eqb (q_res q') rev_res && verb_eqb (q_verb q') VUpdate &&
                                                 String.eqb (q_name q') (q_name q) && String.eqb (q_ns q') (q_ns q) && accepted e'
                                    | None => false end) l')
       | None => false end) || rev_claim_failed l'
  end.

Definition C09_round (c : ccfg) (r : round) : option string :=
  let evs := after_hook (r_events r) in
  let revw := rev_events evs in
  if rev_claim_failed (before_hook (r_events r)) && existsb (is_child_content_write c) evs
  then Some "child-touched-although-revision-claim-failed" else
  (* the interrupted sync is retried: nothing else would (ControllerRevision events wake no parent) *)
  if (rev_claim_failed (before_hook (r_events r)) || existsb (fun e => negb (accepted e)) revw) &&
     negb (qhas (r_queue r) "AddRateLimited" (r_key r)) && negb (sync_result_eqb (r_result r) SPanic)
  then Some "sync-interrupted-by-a-failed-revision-write-not-requeued" else
  match before_each (fun seen e =>
          if String.eqb (match is_api e with Some q => q_res q | None => "" end) rev_res &&
             match is_api e with Some q => is_write q | None => false end &&
             existsb (is_child_content_write c) seen
          then Some "revision-written-after-a-child" else None) [] evs with
  | Some s => Some s
  | None =>
      if existsb (fun e => negb (accepted e)) revw && existsb (is_child_content_write c) evs
      then Some "child-touched-although-revision-write-failed" else None
  end.

(* a rolling child is never found ahead of the revision recorded for it: an accepted content
   update (or the delete that Recreate uses for one) of a desired rolling child follows the answer
   of the revision that claims the child once this sync's revision writes are in *)
Definition C09_child_follows_its_revision (c : ccfg) (r : round) : option string :=
  if negb (any_rolling c) then None else
  match latest_sent c r with
  | None => None
  | Some sent =>
      if is_deleting sent && negb (should_finalize c sent) then None else
      let after := revs_after c r sent in
      let pns := get_ns sent in
      first_some (fun e =>
        match is_api e with
        | Some q =>
            match child_res_of c q with
            | Some kc =>
                let g := group_of (ch_api_version kc) in
                if negb (is_rolling c g (ch_kind kc)) then None else
                if negb (accepted e) then None else
                let subject := if is_null (e_pre e) then q_body q else e_pre e in
                let key := (g, ch_kind kc, relative_name pns subject) in
                match find (fun x => ck_mem key (names_of c x)) after with
                | None => None
                | Some x =>
                    match q_verb q with
                    | VUpdate =>
                        if negb (content_changed e) then None else
                        match answer_for c sent x (r_events r) with
                        | None => Some "child-updated-without-an-answer-of-its-recorded-revision"
                        | Some hr =>
                            match find_desired (relative_desired pns (hr_children (label_resp c sent hr))) g (ch_kind kc) (relative_name pns (e_pre e)) with
                            | Some d => if containsb (JObj (aremove "status" (obj_map d))) (JObj (aremove "status" (obj_map (q_body q)))) then None
                                        else Some "child-updated-ahead-of-its-recorded-revision"
                            | None => None
                            end
                        end
                    | VCreate =>
                        match answer_for c sent x (r_events r) with
                        | None => Some "child-created-without-an-answer-of-its-recorded-revision"
                        | Some hr =>
                            match find_desired (relative_desired pns (hr_children (label_resp c sent hr))) g (ch_kind kc) (relative_name pns (q_body q)) with
                            | Some d => if containsb (JObj (aremove "status" (obj_map d))) (JObj (aremove "status" (obj_map (q_body q)))) then None
                                        else Some "child-created-ahead-of-its-recorded-revision"
                            | None => None
                            end
                        end
                    | VDelete =>
                        match answer_for c sent x (r_events r) with
                        | None => Some "child-deleted-without-an-answer-of-its-recorded-revision"
                        | Some hr =>
                            match find_desired (relative_desired pns (hr_children (label_resp c sent hr))) g (ch_kind kc) (relative_name pns (e_pre e)) with
                            | Some d => match apply_update (obj_map (e_pre e)) (obj_map d) with
                                        | Ok m => if jeqb (JObj m) (e_pre e) then Some "child-deleted-ahead-of-its-recorded-revision" else None
                                        | _ => None end
                            | None => None          (* not desired by its revision: deleted, as any undesired child *)
                            end
                        end
                    | _ => None
                    end
                end
            | None => None
            end
        | None => None
        end) (after_hook (r_events r))
  end.

(* each live revision's hook call is shown the latest parent with exactly the revisioned field paths
   replaced by the revision's values: fields outside the paths take effect for all children at once *)
Definition C07_views (c : ccfg) (r : round) : option string :=
  if negb (any_rolling c) then None else
  match latest_sent c r with
  | None => None
  | Some sent =>
      if is_deleting sent && negb (should_finalize c sent) then None else
      let hooks := hook_events (r_events r) in
      (* judged only when every hook call was answered (an error aborts the sync) and one call per revision was made *)
      if negb (forallb (fun e => match e_ans e with
                                 | AHook ans => match decode_composite ans with Some _ => true | None => false end
                                 | _ => false end) hooks) then None else
      let before := revs_before c r sent in
      if negb (Nat.eqb (List.length hooks) (List.length before + (if existsb (is_latest_rev c sent) before then 0 else 1))) then None else
      if forallb (fun x => match answer_for c sent x (r_events r) with Some _ => true | None => false end) before
      then None else Some "hook-not-shown-the-revisions-view-of-the-parent"
  end.

(* when this sync leaves every desired rolling child with the latest revision, and no other revision, it says so *)
Definition C07_complete (c : ccfg) (r : round) : option string :=
  if negb (any_rolling c) then None else
  match latest_sent c r, k_parent (r_cache r) with
  | Some sent, Some parent =>
      if is_deleting sent && negb (should_finalize c sent) then None else
      let after := revs_after c r sent in
      match find (is_latest_rev c sent) after, status_write_cond c parent (r_events r) with
      | Some lat, Some cond =>
          match answer_for c sent lat (r_events r) with
          | None => None
          | Some lresp =>
              let pns := get_ns sent in
              let order := flat_map (fun ch => match ch with
                               | Some o => let g := group_of (get_api_version o) in
                                           if is_rolling c g (get_kind o) then [(g, get_kind o, relative_name pns o)] else []
                               | None => [] end) (hr_children lresp) in
              if forallb (fun k => ck_mem k (names_of c lat)) order &&
                 (* no revision came (back) to the parent in this sync: an adopted one is not among `before` *)
                 negb (existsb (fun e => match is_api e with
                                         | Some q => String.eqb (q_res q) rev_res && verb_eqb (q_verb q) VUpdate && accepted e &&
                                                     is_orphan (e_pre e)
                                         | None => false end) (r_events r)) &&
                 Nat.eqb (List.length after) 1 &&
                 Nat.eqb (List.length (revs_before c r sent)) 1 &&
                 existsb (is_latest_rev c sent) (revs_before c r sent) &&
                 negb (String.eqb (cond_field cond "reason") "OnLatestRevision")
              then Some "rollout-complete-but-not-reported-as-complete" else None
          end
      | _, _ => None
      end
  | _, _ => None
  end.

(* a sync that ran to its end with every ControllerRevision write accepted leaves each rolling child recorded
   by one revision only (the latest wins a double claim; the loser's record is rewritten without it) *)
Definition C07_exclusive_after (c : ccfg) (r : round) : option string :=
  if negb (any_rolling c) then None else
  match latest_sent c r, r_result r with
  | Some sent, SDone =>
      if negb (forallb accepted (rev_events (r_events r))) then None else
      let claims := flat_map (names_of c) (revs_after c r sent) in
      if forallb (fun k => Nat.leb (List.length (filter (ck_eqb k) claims)) 1) claims then None
      else Some "child-recorded-by-two-revisions-after-a-clean-sync"
  | _, _ => None
  end.

(* "progressing: updating Kind name" names the one child this sync moved: a request for a child of that kind and
   name (its update, its delete, or its creation) was made in this sync; a move that changes nothing is no progress *)
Definition C07_progress_is_real (c : ccfg) (r : round) : option string :=
  match k_parent (r_cache r) with
  | None => None
  | Some parent =>
      match status_write_cond c parent (r_events r) with
      | Some cond =>
          if negb (String.eqb (cond_field cond "reason") "RolloutProgressing") then None else
          let msg := cond_field cond "message" in
          if existsb (fun e => match is_api e with
                               | Some q => match child_res_of c q with
                                           | Some kc => is_write q &&
                                                        String.eqb msg ("updating " ++ ch_kind kc ++ " " ++ q_name q)%string
                                           | None => false end
                               | None => false end) (after_hook (r_events r))
          then None
          else if str_prefix "updating " msg then Some "progress-reported-for-a-child-this-sync-did-not-touch" else None
      | None => None
      end
  end.

Definition C07_check := check_with (fun c r =>
  orelse (C07_round c r) (orelse (C07_condition c r) (orelse (C08_no_wait_on_healthy c r)
         (orelse (C07_views c r) (orelse (C07_complete c r)
         (* every other child keeps following the revision it is assigned to *)
         (orelse (C09_child_follows_its_revision c r) (orelse (C07_exclusive_after c r) (C07_progress_is_real c r)))))))) proj_all true.
(* after any crash cut or revision-write fault the rollout still ends where an uninterrupted one does *)
(* at the end (faults over, a few more syncs done) every rolling child is recorded by at most one revision *)
Definition C09_final_exclusive (c : ccase) : option string :=
  let revs := filter (fun o => String.eqb (get_kind o) "ControllerRevision") (c_final c) in
  let claims := flat_map (fun o => names_of (c_cfg c) (revision_of_json o)) revs in
  if forallb (fun k => Nat.leb (List.length (filter (ck_eqb k) claims)) 1) claims then None
  else Some "child-recorded-by-two-revisions-at-the-end".

(* the stored revisions, followed through the accepted creates and deletes of all rounds: no revision is ever
   created for a parent state (patch) that a stored revision of another name already stands for - a restarted
   controller would find the children of that state recorded twice *)
Definition C09_no_duplicate_state (c : ccase) : option string :=
  let start := match c_rounds c with
               | r :: _ => map (fun o => (get_name o, jget "parentPatch" (obj_map o))) (cached (r_cache r) rev_res)
               | [] => [] end in
  let step := fun (acc : list (string * json) * option string) (e : ev) =>
    match acc with
    | (live, Some w) => (live, Some w)
    | (live, None) =>
        match is_api e with
        | Some q =>
            if negb (String.eqb (q_res q) rev_res && accepted e) then (live, None) else
            match q_verb q with
            | VDelete => (filter (fun p => negb (String.eqb (fst p) (q_name q))) live, None)
            | VCreate =>
                let pt := jget "parentPatch" (obj_map (q_body q)) in
                if existsb (fun p => jeqb (snd p) pt && negb (String.eqb (fst p) (q_name q))) live
                then (live, Some "second-revision-created-for-the-same-parent-state")
                else (live ++ [(q_name q, pt)], None)
            | _ => (live, None)
            end
        | None => (live, None)
        end
    end in
  snd (fold_left (fun acc r => fold_left step (r_events r) acc) (c_rounds c) (start, None)).

(* a ControllerRevision is deleted only when it records no child that is still wanted: every rolling child the
   deleted revision recorded (as cached) and the latest answer still desires is recorded by a surviving revision *)
Definition C09_deleted_revision_was_empty (c : ccfg) (r : round) : option string :=
  if negb (any_rolling c) then None else
  (* judged when every revision write of the sync was accepted (deletes go first: a later write that fails
     leaves the moved child recorded by nobody, which the statement allows) *)
  if negb (forallb accepted (rev_events (r_events r))) then None else
  match latest_sent c r with
  | None => None
  | Some sent =>
      let after := revs_after c r sent in
      let before := revs_before c r sent in
      match find (is_latest_rev c sent) after with
      | None => None
      | Some lat =>
          match answer_for c sent lat (r_events r) with
          | None => None
          | Some lresp =>
              let pns := get_ns sent in
              let wanted := flat_map (fun ch => match ch with
                               | Some o => let g := group_of (get_api_version o) in
                                           if is_rolling c g (get_kind o) then [(g, get_kind o, relative_name pns o)] else []
                               | None => [] end) (hr_children lresp) in
              let claimed := flat_map (names_of c) after in
              first_some (fun e =>
                match is_api e with
                | Some q =>
                    if String.eqb (q_res q) rev_res && verb_eqb (q_verb q) VDelete && accepted e then
                      match find (fun x => String.eqb (rev_name x) (q_name q)) before with
                      | Some x => if existsb (fun k => ck_mem k wanted && negb (ck_mem k claimed)) (names_of c x)
                                  then Some "revision-deleted-while-it-alone-records-a-wanted-child" else None
                      | None => None
                      end
                    else None
                | None => None
                end) (r_events r)
          end
      end
  end.

Definition C09_check (c : ccase) : verdict :=
  match orelse (C08_final c) (orelse (C09_final_exclusive c) (C09_no_duplicate_state c)) with
  | Some w => PROPFAIL ("after-interruption-" ++ w)%string
  | None => check_with (fun c r => orelse (C09_round c r) (orelse (C09_child_follows_its_revision c r)
                                                            (C09_deleted_revision_was_empty c r))) proj_all true c
  end.

(* C17: the shared caches are read-only; the hook sees what the cache holds *)
Definition C17_round (c : ccfg) (r : round) : option string :=
  if negb (String.eqb (r_cache_mutated r) "") then Some ("shared-cache-mutated-" ++ r_cache_mutated r)%string else
  match k_parent (r_cache r), hook_events (r_events r) with
  | Some p, _ :: _ =>
      (* unless the finalizer step rewrote it, one hook call (the latest revision's) carries the cached parent *)
      if existsb (fun e' => match is_api e' with Some q => targets_parent c p q && verb_eqb (q_verb q) VUpdate && accepted e' | None => false end)
                 (before_hook (r_events r))
      then None
      else if existsb (fun e => match e_call e with
                                | CHook _ body =>
                                    let sent := jget "parent" (obj_map body) in
                                    jeqb sent p || existsb (fun e' => match e_ans e' with AObj o => jeqb o sent | _ => false end) (before_hook (r_events r))
                                | _ => false end) (hook_events (r_events r))
           then None else Some "hook-parent-not-from-cache-or-live-read"
  | _, _ => None
  end.
Definition C17_check := check_with C17_round proj_all true.

(* C10, rolling controllers: the finalizer goes only when every revision that is still live after this
   sync's revision bookkeeping answered finalized (a revision emptied and deleted in this sync has no say) *)
Definition C10_all_live_revisions_finalized (c : ccfg) (r : round) : option string :=
  if negb (any_rolling c) then None else
  match latest_sent c r, k_parent (r_cache r) with
  | Some sent, Some parent =>
      let fin := finalizer_name c in
      if existsb (fun e => match is_api e with
                           | Some q => targets_parent c parent q && verb_eqb (q_verb q) VUpdate && accepted e &&
                                       has_finalizer (e_pre e) fin && negb (has_finalizer (e_post e) fin)
                           | None => false end) (after_hook (r_events r))
      then
        if negb (forallb (fun x => match answer_for c sent x (r_events r) with
                                   | Some hr => hr_finalized hr
                                   | None => true end) (revs_after c r sent))
        then Some "finalizer-removed-although-a-live-revision-is-not-finalized" else
        (* ... and every one of them has been asked: a revision nobody asked has not answered finalized *)
        if forallb (fun x => match answer_for c sent x (r_events r) with Some _ => true | None => false end)
                   (revs_after c r sent)
        then None else Some "finalizer-removed-although-a-live-revision-was-not-asked"
      else None
  | _, _ => None
  end.

Definition C10_check_r := check_with (fun c r =>
  orelse (with_parent (fun p => orelse (C10_round c (r_cache r) p (r_events r))
                                  (orelse (C10_leftover c p (r_events r)) (C10_handoff c (r_events r)))) r)
         (C10_all_live_revisions_finalized c r)) proj_finalizer false.

(* ================= C01: convergence, then quiescence ================= *)
Definition round_child_requests (c : ccfg) (r : round) : nat :=
  List.length (filter (fun e => match is_api e with
                                | Some q => match child_res_of c q with Some _ => is_write q | None => false end
                                | None => false end) (r_events r)).

Definition round_effective_writes (r : round) : nat :=
  List.length (filter (fun e => match is_api e with Some q => is_write q && effective e | None => false end) (r_events r)).

Fixpoint last_n {A} (n : nat) (l : list A) : list A := rev (firstn n (rev l)).

Definition C01_case (c : ccase) : option string :=
  let cfg := c_cfg c in
  let tail := last_n 2 (c_rounds c) in
  if existsb (fun r => negb (sync_result_eqb (r_result r) SDone)) tail then Some "sync-still-failing-after-the-bound" else
  if existsb (fun r => negb (Nat.eqb (round_child_requests cfg r) 0)) tail then Some "child-requests-never-stop" else
  if existsb (fun r => negb (Nat.eqb (round_effective_writes r) 0)) tail then Some "store-still-changing" else
  (* owned children = desired children; desired fields in place where the strategy permits updates *)
  (* the last round in which the hook spoke (a parent the controller no longer cares about is not synced) *)
  match filter (fun r => match round_desired cfg (r_events r) with Some _ => true | None => false end) (rev (c_rounds c)) with
  | [] => None
  | lastr :: _ =>
      match round_desired cfg (r_events lastr), k_parent (r_cache lastr) with
      | Some (sent, ds), Some parent =>
          let puid := get_uid parent in
          let owned := filter (fun o => controlled_by o puid &&
                                        existsb (fun kc => String.eqb (get_api_version o) (ch_api_version kc) && String.eqb (get_kind o) (ch_kind kc)) (kids cfg))
                              (c_final c) in
          let desired := flat_map (fun d => match d with Some o => [o] | None => [] end) ds in
          let same := fun (a b : json) => String.eqb (get_api_version a) (get_api_version b) && String.eqb (get_kind a) (get_kind b) &&
                                         String.eqb (get_name a) (get_name b) &&
                                         (String.eqb (get_ns a) (get_ns b) || String.eqb (get_ns a) "" || String.eqb (get_ns b) "") in
          if existsb is_deleting owned then None else
          if negb (forallb (fun o => existsb (same o) desired) owned) then Some "owns-a-child-that-is-not-desired" else
          if negb (forallb (fun d => existsb (same d) owned) desired) then Some "desired-child-missing-or-not-owned" else
          if forallb (fun d =>
               match find (same d) owned with
               | Some o =>
                   let m := method_of cfg (group_of (get_api_version d)) (get_kind d) in
                   if String.eqb m method_on_delete then true else
                   (* every field the hook specified has the value the hook specified (status and system metadata aside) *)
                   containsb (JObj (aremove "status" (obj_map d))) (JObj (aremove "status" (obj_map o)))
               | None => true end) desired
          then None else Some "desired-field-not-in-place"
      | _, _ => None
      end
  end.

Definition C01_check (c : ccase) : verdict :=
  match C01_case c with
  | Some w => PROPFAIL w
  | None => if ssa (c_cfg c) then OK else corr_check proj_all true c
  end.
