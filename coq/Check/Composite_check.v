(* Composite_check.v — correspondence between Model/Composite.v and the real
   composite controller: the model is run against the answers the
   implementation received; calls are compared per target. *)
From MC Require Export Model.Verdict Model.Composite Model.TracePreds Model.Safe Model.Rolling.
Local Open Scope list_scope.

Record round := mkRound { r_cache : cache; r_events : list ev; r_result : sync_result;
                          r_queue : list (string * string * Z);   (* op, key, delay in ms *)
                          r_key : string }.
Record ccase := mkCase { c_cfg : ccfg; c_rounds : list round;
                         c_final : list json;        (* the store after the last round *)
                         c_flags : list string }.    (* scenario features *)

(* identity of a call target *)
Definition call_key (c : call) : string :=
  match c with
  | CApi q => ((match q_verb q with
               | VGet => "get" | VCreate => "create" | VUpdate => "update" | VUpdateStatus => "updatestatus"
               | VDelete => "delete" | VPatchJson => "patch-json" | VPatchApply => "patch-apply" end)
               ++ " " ++ q_res q ++ " " ++ q_ns q ++ "/" ++ q_name q)%string
  | CHook HSync _ => "hook sync"
  | CHook HFinalize _ => "hook finalize"
  | CHook HCustomize _ => "note"
  end.

Definition req_eqb (a b : req) : bool :=
  verb_eqb (q_verb a) (q_verb b) && String.eqb (q_res a) (q_res b) && String.eqb (q_ns a) (q_ns b) &&
  String.eqb (q_name a) (q_name b) && jeqb (q_body a) (q_body b) &&
  String.eqb (q_uid_pre a) (q_uid_pre b) && String.eqb (q_prop a) (q_prop b).

Definition call_eqb (a b : call) : bool :=
  match a, b with
  | CApi x, CApi y => req_eqb x y
  | CHook k1 b1, CHook k2 b2 => hook_kind_eqb k1 k2 && jeqb b1 b2
  | _, _ => false
  end.

(* the n-th logged answer for a key *)
Fixpoint nth_answer (key : string) (n : nat) (log : list ev) : option answer :=
  match log with
  | [] => None
  | e :: log' =>
      if String.eqb (call_key (e_call e)) key
      then match n with O => Some (e_ans e) | S n' => nth_answer key n' log' end
      else nth_answer key n log'
  end.

Definition count_key (key : string) (hist : list (call * answer)) : nat :=
  List.length (filter (fun p => String.eqb (call_key (fst p)) key) hist).

Definition is_note (c : call) : bool := match c with CHook HCustomize _ => true | _ => false end.

(* hook calls of one sync run in parallel (one per live revision): answers are matched by request content *)
Fixpoint nth_answer_eq (c : call) (n : nat) (log : list ev) : option answer :=
  match log with
  | [] => None
  | e :: log' =>
      if call_eqb (e_call e) c
      then match n with O => Some (e_ans e) | S n' => nth_answer_eq c n' log' end
      else nth_answer_eq c n log'
  end.

Definition env_of_log (log : list ev) : env :=
  fun hist c =>
    if is_note c then AHookErr else
    match c with
    | CHook _ _ =>
        match nth_answer_eq c (List.length (filter (fun p => call_eqb (fst p) c) hist)) log with
        | Some a => a | None => AHookErr end
    | _ =>
    match nth_answer (call_key c) (count_key (call_key c) hist) log with
    | Some a => a
    | None => AFail EOther
    end
    end.

Definition sync_result_eqb (a b : sync_result) : bool :=
  match a, b with
  | SDone, SDone | SErr, SErr | SPanic, SPanic => true
  | SRequeue x, SRequeue y => Z.eqb x y
  | _, _ => false
  end.

(* per-key sequences of calls agree *)
Definition calls_for (key : string) (l : list call) : list call :=
  filter (fun c => String.eqb (call_key c) key) l.

Fixpoint calls_eqb (a b : list call) : bool :=
  match a, b with
  | [], [] => true
  | x :: a', y :: b' => call_eqb x y && calls_eqb a' b'
  | _, _ => false
  end.

(* parallel hook calls: compared as multisets *)
Fixpoint remove_call (c : call) (l : list call) : option (list call) :=
  match l with
  | [] => None
  | x :: l' => if call_eqb c x then Some l'
               else match remove_call c l' with Some r => Some (x :: r) | None => None end
  end.
Fixpoint calls_perm_eqb (a b : list call) : bool :=
  match a with
  | [] => match b with [] => true | _ => false end
  | x :: a' => match remove_call x b with Some b' => calls_perm_eqb a' b' | None => false end
  end.
Definition is_hook_call (c : call) : bool := match c with CHook _ _ => true | _ => false end.

Definition round_diverges (proj : ccfg -> json -> call -> bool) (with_result : bool) (c : ccfg) (r : round) : option string :=
  let p := sync_r c (r_cache r) in
  let '(hist, res) := run p (env_of_log (r_events r)) [] in
  let parent := match k_parent (r_cache r) with Some p => p | None => JNull end in
  let mcalls := filter (proj c parent) (filter (fun c => negb (is_note c)) (map fst (rev hist))) in
  let icalls := filter (proj c parent) (map e_call (r_events r)) in
  if with_result && negb (sync_result_eqb res (r_result r)) then Some "result" else
  if negb (Nat.eqb (List.length mcalls) (List.length icalls)) then Some "call-count" else
  if forallb (fun c => if is_hook_call c
                       then calls_perm_eqb (calls_for (call_key c) mcalls) (calls_for (call_key c) icalls)
                       else calls_eqb (calls_for (call_key c) mcalls) (calls_for (call_key c) icalls)) icalls
  then None else Some "call-content".

Fixpoint first_divergence proj wr (c : ccfg) (rs : list round) (i : nat) : option string :=
  match rs with
  | [] => None
  | r :: rs' => match round_diverges proj wr c r with
                | Some w => Some (w ++ "@round" ++ string_of_Z (Z.of_nat i))%string
                | None => first_divergence proj wr c rs' (S i) end
  end.

(* the environment assumption of the theorems (Safe.sane) holds of what the simulator answered *)
Definition env_sane (c : ccase) : bool :=
  forallb (fun r => forallb (fun e => saneb (e_call e) (e_ans e)) (r_events r)) (c_rounds c).

Definition corr_check proj wr (c : ccase) : verdict :=
  if negb (env_sane c) then DIVERGE "environment-assumption-sane" else
  match first_divergence proj wr (c_cfg c) (c_rounds c) 0 with
  | Some w => DIVERGE w
  | None => OK
  end.

(* which calls each property's correspondence looks at *)
Definition proj_all (c : ccfg) (p : json) (cl : call) : bool := true.
Definition proj_writes (c : ccfg) (p : json) (cl : call) : bool :=
  match cl with CApi q => is_write q | _ => false end.
Definition proj_hooks (c : ccfg) (p : json) (cl : call) : bool :=
  match cl with CHook _ _ => true | _ => false end.
Definition proj_child_writes (c : ccfg) (p : json) (cl : call) : bool :=
  match cl with CApi q => is_write q && negb (targets_parent c p q) | _ => false end.
Definition proj_claims (c : ccfg) (p : json) (cl : call) : bool :=
  match cl with
  | CApi q => (verb_eqb (q_verb q) VUpdate && negb (targets_parent c p q)) || (verb_eqb (q_verb q) VGet && targets_parent c p q)
  | _ => false end.
Definition proj_parent (c : ccfg) (p : json) (cl : call) : bool :=
  match cl with CApi q => targets_parent c p q | CHook _ _ => false end.
Definition proj_finalizer (c : ccfg) (p : json) (cl : call) : bool :=
  match cl with
  | CApi q => (targets_parent c p q && verb_eqb (q_verb q) VUpdate) || (verb_eqb (q_verb q) VCreate)
  | CHook _ _ => true end.

(* property predicates are evaluated on the implementation's own trace first:
   a PROPFAIL is a violation by the code, whatever the model says *)
Fixpoint first_round_fail (f : round -> option string) (rs : list round) (i : nat) : option string :=
  match rs with
  | [] => None
  | r :: rs' => match f r with
                | Some w => Some (w ++ "@round" ++ string_of_Z (Z.of_nat i))%string
                | None => first_round_fail f rs' (S i) end
  end.

Definition check_with (f : ccfg -> round -> option string) proj wr (c : ccase) : verdict :=
  match first_round_fail (f (c_cfg c)) (c_rounds c) 0 with
  | Some w => PROPFAIL w
  | None => corr_check proj wr c
  end.

Definition with_parent (f : json -> option string) (r : round) : option string :=
  match k_parent (r_cache r) with Some p => f p | None => None end.

Definition orelse (a b : option string) : option string := match a with Some s => Some s | None => b end.

(* the children the controller holds after claiming, recomputed from cache and events (as C03) *)
Definition observed_of (c : ccfg) (r : round) (sent : json) : umap :=
  match make_selector c sent with
  | None => []
  | Some sel =>
      fold_left (fun m kc =>
        fold_left (fun m o => uinsert o m)
          (filter (fun o => visible c sent o && sel_matches sel (get_labels o) &&
                            (controlled_by o (get_uid sent) ||
                             (is_orphan o && negb (is_deleting o) && negb (is_deleting sent) &&
                              adopted_in c kc (get_uid sent) o (before_hook (r_events r)))))
                  (cached (r_cache r) (ch_res kc)))
          (uinit (ch_api_version kc) (ch_kind kc) m)) (kids c) []
  end.

Definition C02_check := check_with (fun c r => C02_round c (r_cache r) (r_events r)) proj_writes false.

Definition C03_check := check_with (fun c r =>
  orelse (C03_round c (r_cache r) (r_events r))
         (with_parent (fun p => C03_namespace_default c p (r_events r)) r)) proj_hooks false.

Definition C04_check := check_with (fun c r =>
  orelse (with_parent (fun p => C04_round c (r_cache r) p (r_events r)) r)
         (C04_label_invariant c (r_events r))) proj_claims false.

(* the desired children of the round as child management receives them
   (namespace defaulted, controller-uid label added under selector generation) *)
Definition round_desired (c : ccfg) (evs : list ev) : option (json * list (option json)) :=
  match round_hook evs with
  | None => None
  | Some (_, body, hr) =>
      let sent := jget "parent" (obj_map body) in
      match desired_map (hr_children hr) [], make_selector c sent with
      | Some d0, Some sel =>
          match enforce_labels c sent sel (uobjects d0) with
          | Some ds => Some (sent, map Some ds)
          | None => None end
      | _, _ => None
      end
  end.

Definition C06_round (c : ccfg) (r : round) : option string :=
  match round_desired c (r_events r) with
  | None => None
  | Some (sent, ds) =>
      orelse (first_some (C06_event_ok c (r_cache r) ds) (after_hook (r_events r)))
             (match r_result r with
              | SDone => if (negb (is_deleting sent) || should_finalize c sent) &&
                            negb (match round_hook (r_events r) with Some (_, _, hr) => hr_finalized hr | None => true end)
                         then C06_complete c (r_cache r) sent (observed_of c r sent) ds (after_hook (r_events r))
                         else None
              | _ => None end)
  end.
Definition C06_check := check_with C06_round proj_child_writes false.

Definition C10_check := check_with (fun c r =>
  with_parent (fun p => orelse (C10_round c (r_cache r) p (r_events r)) (C10_handoff c (r_events r))) r) proj_finalizer false.

Definition C11_check := check_with (fun c r =>
  with_parent (fun p => orelse (C11_round c p (r_events r) (r_result r)) (C11_attempted c p (r_events r))) r) proj_parent true.

(* C13: no answer makes the worker panic; a rejected answer causes no child write *)
Definition C13_round (c : ccfg) (r : round) : option string :=
  match r_result r with
  | SPanic => Some "panic"
  | SErr =>
      match hook_events (r_events r), round_desired c (r_events r) with
      | _ :: _, None =>
          if child_write_seen c (r_events r) then Some "child-write-after-rejected-response" else None
      | _, _ => None
      end
  | _ => None
  end.
Definition proj_none (c : ccfg) (p : json) (cl : call) : bool := false.
Definition C13_check := check_with C13_round proj_child_writes true.

(* C12: requeue discipline, nothing swallowed, one bad child blocks nothing *)
Definition C12_complete (c : ccfg) (r : round) : option string :=
  match round_desired c (r_events r) with
  | None => None
  | Some (sent, ds) =>
      if status_phase_seen c sent (r_events r) && (negb (is_deleting sent) || should_finalize c sent) &&
         negb (match round_hook (r_events r) with Some (_, _, hr) => hr_finalized hr | None => true end)
      then C06_complete c (r_cache r) sent (observed_of c r sent) ds (after_hook (r_events r))
      else None
  end.

Definition C12_check := check_with (fun c r =>
  orelse (with_parent (fun p => C12_round c p (r_key r) (r_events r) (r_result r) (r_queue r)) r)
         (orelse (C12_complete c r)
                 (if child_write_seen c (r_events r) &&
                     negb (match k_parent (r_cache r) with Some p => status_phase_seen c p (r_events r) | None => true end)
                  then Some "status-not-attempted-after-child-failure" else None))) proj_all true.

(* ---------- C08: healthy rollouts finish and clean up; never wait on a healthy child ---------- *)
Definition status_write_cond (c : ccfg) (parent : json) (evs : list ev) : option json :=
  match rev (filter (fun e => match is_api e with
                              | Some q => targets_parent c parent q && verb_eqb (q_verb q) VUpdateStatus
                              | None => false end) evs) with
  | e :: _ => match is_api e with
              | Some q => status_condition (q_body q) "Updated"
              | None => None end
  | [] => None
  end.

Definition str_prefix (p s : string) : bool := String.prefix p s.

(* the message of a RolloutWaiting condition names a child; it must really be absent / stale / unhealthy *)
Definition C08_no_wait_on_healthy (c : ccfg) (r : round) : option string :=
  match k_parent (r_cache r) with
  | None => None
  | Some parent =>
      match status_write_cond c parent (r_events r), round_desired c (r_events r) with
      | Some cond, Some (sent, ds) =>
          if negb (String.eqb (cond_field cond "reason") "RolloutWaiting") then None else
          let msg := cond_field cond "message" in
          let observed := observed_of c r sent in
          first_some (fun g => match g with (av, kd, os) =>
            first_some (fun p =>
              let o := snd p in
              let name := relative_name (get_ns sent) o in
              if str_prefix ("missing child " ++ kd ++ " " ++ name)%string msg &&
                 String.eqb msg ("missing child " ++ kd ++ " " ++ name)%string
              then Some "rollout-waits-on-child-that-exists" else None) os end) observed
      | _, _ => None
      end
  end.

Definition owned_by (puid : string) (o : json) : bool := controlled_by o puid.

Definition C08_final (c : ccase) : option string :=
  if negb (mem_str "fair" (c_flags c)) then None else
  let cfg := c_cfg c in
  match find (fun o => String.eqb (get_kind o) (p_kind cfg)) (c_final c) with
  | None => None
  | Some parent =>
      let puid := get_uid parent in
      if is_deleting parent then None else
      let revs := filter (fun o => String.eqb (get_kind o) "ControllerRevision" && owned_by puid o) (c_final c) in
      let image := jget "image" (obj_map (jget "spec" (obj_map parent))) in
      let stale := filter (fun o => owned_by puid o && negb (String.eqb (get_kind o) "ControllerRevision") &&
                                    is_rolling cfg (group_of (get_api_version o)) (get_kind o) &&
                                    negb (jeqb (jget "image" (obj_map (jget "spec" (obj_map o)))) image)) (c_final c) in
      if negb (Nat.eqb (List.length stale) 0) then Some "children-not-all-at-latest-after-fair-rollout" else
      if negb (Nat.eqb (List.length revs) 1) then Some "old-revisions-not-cleaned-up" else
      match status_condition parent "Updated" with
      | Some cond => if String.eqb (cond_field cond "status") "True" then None else Some "updated-condition-not-true-after-fair-rollout"
      | None => Some "updated-condition-missing"
      end
  end.

Definition C08_check (c : ccase) : verdict :=
  match C08_final c with
  | Some w => PROPFAIL w
  | None => check_with (fun cfg r => C08_no_wait_on_healthy cfg r) proj_all true c
  end.

Definition C07_check := check_with (fun c r => C08_no_wait_on_healthy c r) proj_all true.
