(* C17r_check.v — verdict for the concurrent-syncs leg of C17.
   The harness runs one world twice: the syncs of distinct parents one after
   another, and concurrently (shared informers, shared customize manager, the race
   detector on).  C17_schedules_agree (Properties/C17.v) says every interleaving of
   syncs with disjoint footprints gives each of them what it gets alone: so the
   projected store after the concurrent run must equal the one after the serial
   run, no hook call may have carried another parent's state, and no object held
   by a shared cache may have changed. *)
From MC Require Export Model.Json Model.Verdict.
Open Scope string_scope.

Record c17r := mkC17r {
  r_serial : list string;        (* projected store after the serial run *)
  r_concurrent : list string;    (* projected store after the concurrent run *)
  r_foreign : list string;       (* hook calls that were shown another parent's children / related objects *)
  r_cache_mutated : list string; (* shared-cache objects that differ after a round *)
  r_panics : list string
}.

Definition C17r_check (c : c17r) : verdict :=
  match r_panics c with
  | m :: _ => PROPFAIL "panic-in-concurrent-sync"
  | [] =>
  match r_cache_mutated c with
  | _ :: _ => PROPFAIL "shared-cache-object-changed"
  | [] =>
  match r_foreign c with
  | _ :: _ => PROPFAIL "hook-saw-another-parents-state"
  | [] => if strs_eqb (r_serial c) (r_concurrent c) then OK
          else PROPFAIL "concurrent-syncs-differ-from-serial"
  end end end.
