(* Decorator_check.v — correspondence between Model/Decorator.v and the real
   decorator controller, and property C16 on the implementation's own trace.
   As in Composite_check.v the model is run against the answers the
   implementation received; calls are compared per target key. *)
From MC Require Import Generated.
From MC Require Export Model.Verdict Model.Decorator Model.DecoratorPreds Model.Safe.
From MC Require Import Check.Composite_check.
Local Open Scope list_scope.

Record dround := mkDRound { d_cache : dcache; d_events : list ev; d_result : sync_result;
                            d_queue : list (string * string * Z);   (* op, key, delay in ms *)
                            d_mutated : string }.   (* cache-fingerprint oracle: "" or which cached object the sync changed *)
Record dcase := mkDCase { d_cfg : dcfg; d_rounds : list dround;
                          d_flags : list string;      (* scenario features *)
                          d_initial : list json;      (* converge scenarios: the store before the first sync *)
                          d_final : list json }.      (* and after the last *)

(* ---------- the modelled domain ---------- *)
(* annotations of a target are plain strings (an embedded JSON text, as the
   last-applied annotation of a composite child, is not modelled for targets) *)
Definition plain_annotations (o : json) : bool :=
  match nested_get (obj_map o) ["metadata"; "annotations"] with
  | NFound (JObj m) => forallb (fun kv => match snd kv with JText _ => false | _ => true end) m
  | _ => true
  end.

Definition round_in_domain (r : dround) : bool :=
  forallb (fun g => forallb plain_annotations (snd g)) (dk_parents (d_cache r)).

(* ---------- model versus implementation ---------- *)
Definition dround_diverges (c : dcfg) (r : dround) : option string :=
  let '(hist, res) := run (sync_d c (d_cache r)) (env_of_log (d_events r)) [] in
  let mcalls := map fst (rev hist) in
  let icalls := map e_call (d_events r) in
  if negb (sync_result_eqb res (d_result r)) then Some "result" else
  if negb (Nat.eqb (List.length mcalls) (List.length icalls)) then Some "call-count" else
  if forallb (fun cl => calls_eqb (calls_for (call_key cl) mcalls) (calls_for (call_key cl) icalls)) icalls
  then None else Some "call-content".

Fixpoint first_ddivergence (c : dcfg) (rs : list dround) (i : nat) : option string :=
  match rs with
  | [] => None
  | r :: rs' => match dround_diverges c r with
                | Some w => Some (w ++ "@round" ++ string_of_Z (Z.of_nat i))%string
                | None => first_ddivergence c rs' (S i) end
  end.

(* the environment assumption of the theorems (Safe.sane) holds of what the simulator answered *)
Definition denv_sane (c : dcase) : bool :=
  forallb (fun r => forallb (fun e => saneb (e_call e) (e_ans e)) (d_events r)) (d_rounds c).

(* the worker step: one Done, and exactly one of Forget / AddRateLimited, matching the result *)
Definition queue_clause (r : dround) : option string :=
  let key := dk_key (d_cache r) in
  match d_result r with
  | SPanic => Some "panic"
  | _ =>
      if negb (qhas (d_queue r) "Done" key) then Some "work-item-not-marked-done" else
      if qhas (d_queue r) "AddRateLimited" key && qhas (d_queue r) "Forget" key then Some "forgotten-and-requeued" else
      if negb (qhas (d_queue r) "AddRateLimited" key) && negb (qhas (d_queue r) "Forget" key)
      then Some "neither-requeued-nor-forgotten" else None
  end.

Fixpoint first_dround_fail (f : dround -> option string) (rs : list dround) (i : nat) : option string :=
  match rs with
  | [] => None
  | r :: rs' => match f r with
                | Some w => Some (w ++ "@round" ++ string_of_Z (Z.of_nat i))%string
                | None => first_dround_fail f rs' (S i) end
  end.

Definition C16_prop_round (c : dcfg) (r : dround) : option string :=
  orelse_s (C16_round c (d_cache r) (d_events r))
    (orelse_s (match target_of c (d_cache r) with
               | Some t => C16_request_when_changed c t (d_events r) (d_result r)
               | None => None end)
              (orelse_s (queue_clause r)
                 (* the cache-fingerprint oracle: no object held by a shared informer cache changed during the sync *)
                 (if String.eqb (d_mutated r) "" then None else Some ("shared-cache-mutated-" ++ d_mutated r)%string))).

Definition C16_check (c : dcase) : verdict :=
  if negb (forallb round_in_domain (d_rounds c)) then SKIP "target-annotation-holds-embedded-json" else
  (* 1. the property on what the implementation did *)
  match (if mem_str "failed-write-then-retry" (d_flags c)
         then C16_retry_rounds (d_cfg c) (map (fun r => (d_cache r, d_events r, d_result r)) (d_rounds c)) else None) with
  | Some w => PROPFAIL w
  | None =>
  match first_dround_fail (C16_prop_round (d_cfg c)) (d_rounds c) 0 with
  | Some w => PROPFAIL w
  | None =>
      (* 2. the model against the implementation *)
      if negb (denv_sane c) then DIVERGE "environment-assumption-sane" else
      match first_ddivergence (d_cfg c) (d_rounds c) 0 with
      | Some w => DIVERGE w
      | None => OK
      end
  end
  end.

(* ---------- C06, decorator leg: the update strategy of the attachment rule decides the verb ---------- *)
(* the implementation's own trace only (PROPFAIL | OK); the model comparison is C16_check's business *)
Definition C06d_check (c : dcase) : verdict :=
  if negb (forallb round_in_domain (d_rounds c)) then SKIP "target-annotation-holds-embedded-json" else
  match first_dround_fail (fun r => C06d_round (d_cfg c) (d_cache r) (d_events r) (d_result r)) (d_rounds c) 0 with
  | Some w => PROPFAIL w
  | None => OK
  end.

(* ---------- C10, decorator leg: finalizer discipline ---------- *)
Definition C10d_check (c : dcase) : verdict :=
  if negb (forallb round_in_domain (d_rounds c)) then SKIP "target-annotation-holds-embedded-json" else
  match first_dround_fail (fun r => C10d_prop_round (d_cfg c) (d_cache r) (d_events r) (d_result r)) (d_rounds c) 0 with
  | Some w => PROPFAIL w
  | None => OK
  end.

(* ---------- C17, decorator leg: the shared informer caches are read-only ---------- *)
Definition C17d_check (c : dcase) : verdict :=
  match first_dround_fail (fun r => if String.eqb (d_mutated r) "" then None
                                    else Some ("shared-cache-mutated-" ++ d_mutated r)%string) (d_rounds c) 0 with
  | Some w => PROPFAIL w
  | None => OK
  end.

(* ---------- alias legs over the same records: C03 (what the hook is shown), C12 (worker step), C13 (hostile answers) ---------- *)
Definition leg_check (f : dcfg -> dround -> option string) (c : dcase) : verdict :=
  if negb (forallb round_in_domain (d_rounds c)) then SKIP "target-annotation-holds-embedded-json" else
  match first_dround_fail (f (d_cfg c)) (d_rounds c) 0 with
  | Some w => PROPFAIL w
  | None => OK
  end.

Definition C03d_check := leg_check (fun c r =>
  orelse_s (C03d_round c (d_cache r) (d_events r))
           (match target_of c (d_cache r) with
            | Some t => C03d_namespace_default c t (d_events r)
            | None => None end)).
Definition C12d_check := leg_check (fun c r => C12d_round (dk_key (d_cache r)) (d_events r) (d_result r) (d_queue r)).
Definition C13d_check := leg_check (fun c r => C13d_round (d_events r) (d_result r)).

(* ---------- C01, decorator leg: convergence and no hot loop ---------- *)
(* fault-free syncs with fresh caches until one sends no write, then one more (the harness stops there) *)
Definition C01d_check (c : dcase) : verdict :=
  if negb (forallb round_in_domain (d_rounds c)) then SKIP "target-annotation-holds-embedded-json" else
  if negb (mem_str "converge" (d_flags c)) then SKIP "not-a-convergence-scenario" else
  match C01d_case (d_cfg c) (map (fun r => (d_cache r, d_events r, d_result r)) (d_rounds c)) (d_initial c) (d_final c) with
  | Some w => PROPFAIL w
  | None =>
      if negb (denv_sane c) then DIVERGE "environment-assumption-sane" else
      match first_ddivergence (d_cfg c) (d_rounds c) 0 with
      | Some w => DIVERGE w
      | None => OK
      end
  end.

(* ---------- debugging aids (not used by the verdict) ---------- *)
Definition model_calls (c : dcfg) (r : dround) : list string * sync_result :=
  let '(hist, res) := run (sync_d c (d_cache r)) (env_of_log (d_events r)) [] in
  (map (fun p => call_key (fst p)) (rev hist), res).
Definition impl_calls (r : dround) : list string * sync_result :=
  (map (fun e => call_key (e_call e)) (d_events r), d_result r).
