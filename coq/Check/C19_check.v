(* C19_check.v — one correspondence case of property C19: a configuration, an
   initial ETag cache, a script of calls (key + the reply the scripted HTTP
   client gives), a schedule, and what the REAL webhookExecutor did: per call the
   If-None-Match header it put on its request and its outcome, plus the final
   cache content.  A single call is the schedule [Step 0; Step 0; Step 0]. *)
From MC Require Export Model.Verdict Model.Webhook.

Inductive impl_outcome :=
| IOk (id : Z)        (* Call returned nil; id = status.a of the decoded response *)
| IErr                (* any error other than TooManyRequestError *)
| ITooMany (s : Z)    (* *TooManyRequestError{AfterSecond: s} *)
| IPanic
| INotRun             (* the call was never started / not finished by the schedule *)
| INeverReturned.     (* Call was still blocked when the watchdog fired *)

Record C19_case := mkC19 {
  k_etag : bool;
  k_strict : bool;
  k_init : list (Z * entry);
  k_script : list call_spec;
  k_sched : list event;
  k_impl : list (string * impl_outcome);          (* per call, in call order *)
  k_final : list (Z * option (string * Z))        (* per key used: ETag and body id cached at the end *)
}.

Definition case_bodies (c : C19_case) : list body :=
  (map (fun p => e_body (snd p)) (k_init c) ++
   flat_map (fun sp => match cs_reply sp with Reply r => [r_body r] | TransportError => [] end)
            (k_script c))%list.

Definition find_body (l : list body) (id : Z) : option body :=
  find (fun b => b_id b =? id) l.

(* (property clauses on the implementation's behaviour, comparisons with the model, modelled?) *)
Definition call_verdict (cfg : config) (c0 : cache) (sc : script) (st : state) (bodies : list body)
    (i : Z) (sp : call_spec) (im : string * impl_outcome)
  : list (string * bool) * list (string * bool) * bool :=
  let (sent, io) := im in
  match st_calls st i with
  | PDone msent mo =>
      let pairs := (init_pairs (cs_key sp) c0 ++ script_pairs (cs_key sp) sc)%list in
      let judge (o : outcome) :=
        (call_clauses cfg pairs sent (cs_reply sp) o,
         [("if-none-match", String.eqb sent msent); ("outcome", outcome_eqb o mo)], true) in
      match io with
      | IPanic => ([("panic", false)], [], true)
      | INotRun => ([], [("call-did-not-return", false)], true)
      | INeverReturned => ([("timeout-not-enforced", false)], [], true)
      | IOk id =>
          match find_body bodies id with
          | Some b => judge (OkBody b)
          | None => ([("unknown-body-returned", false)], [], true)
          end
      | IErr => judge Err
      | ITooMany s => judge (TooMany s)
      end
  | _ => ([], [], false)
  end.

Fixpoint all_calls (cfg : config) (c0 : cache) (sc : script) (st : state) (bodies : list body)
    (i : Z) (specs : list call_spec) (impls : list (string * impl_outcome))
  : list (string * bool) * list (string * bool) * bool :=
  match specs, impls with
  | [], [] => ([], [], true)
  | sp :: specs', im :: impls' =>
      let '(p1, d1, m1) := call_verdict cfg c0 sc st bodies i sp im in
      let '(p2, d2, m2) := all_calls cfg c0 sc st bodies (i + 1) specs' impls' in
      ((p1 ++ p2)%list, (d1 ++ d2)%list, m1 && m2)
  | _, _ => ([], [("number-of-calls", false)], true)
  end.

Definition final_eqb (obs : option (string * Z)) (m : option entry) : bool :=
  match obs, m with
  | None, None => true
  | Some (et, id), Some e => String.eqb et (e_etag e) && (id =? b_id (e_body e))
  | _, _ => false
  end.

Definition C19_check (c : C19_case) : verdict :=
  let cfg := mkCfg (k_etag c) (k_strict c) in
  let c0 := cache_of_list (k_init c) in
  let st := run_schedule cfg (k_script c) (init c0) (k_sched c) in
  let '(props, divs, modelled) :=
    all_calls cfg c0 (k_script c) st (case_bodies c) 0 (k_script c) (k_impl c) in
  if negb modelled then SKIP "a-call-does-not-take-its-three-steps" else
  match first_fail props with
  | Some n => PROPFAIL n
  | None =>
      match first_fail divs with
      | Some n => DIVERGE n
      | None =>
          if forallb (fun p => final_eqb (snd p) (st_cache st (fst p))) (k_final c)
          then OK else DIVERGE "final-cache"
      end
  end.

(* ------------------------------------------------------------------ *)
(* Timed cases: the REAL executor built by NewWebhookExecutor with a short
   webhook timeout talks to a real local HTTP server that sends its headers
   and its body at scripted times.  Observed: the outcome and whether Call
   had returned within timeout + generous slack (one-sided bound). *)
Record C19_timed := mkC19T {
  tt_etag : bool;
  tt_strict : bool;
  tt_timeout_ms : Z;
  tt_headers_ms : option Z;     (* headers sent this long after the request; None = never *)
  tt_done_ms : option Z;        (* last body byte sent; None = never *)
  tt_resp : response;           (* what the backend sends *)
  tt_impl : impl_outcome;
  tt_in_bound : bool
}.

(* the model side of the clause: an exchange that is not over in time is an error *)
Lemma timed_model_is_error : forall cfg c k sent t x r,
  exchange_in_time t x r = false -> snd (finish cfg c k sent (timed_reply t x r)) = Err.
Proof.
  intros cfg c k sent t x r H. unfold exchange_in_time in H. unfold timed_reply.
  destruct (within t (x_headers_ms x)) eqn:Eh; simpl in *; [|reflexivity].
  destruct (r_status r =? 429) eqn:E429; simpl in H; [discriminate H|].
  rewrite H. unfold finish. simpl. rewrite E429. reflexivity.
Qed.

(* scripted times within a factor 2 of the timeout are not judged *)
Definition too_close (timeout_ms : Z) (t : option Z) : bool :=
  match t with
  | Some v => (timeout_ms <? 2 * v) && (v <? 2 * timeout_ms)
  | None => false
  end.

Definition C19_timed_check (c : C19_timed) : verdict :=
  let cfg := mkCfg (tt_etag c) (tt_strict c) in
  let x := mkExchange (tt_headers_ms c) (tt_done_ms c) in
  let t := tt_timeout_ms c in
  let r := tt_resp c in
  if too_close t (tt_headers_ms c) || too_close t (tt_done_ms c)
  then SKIP "exchange-too-close-to-the-timeout" else
  let rp := timed_reply t x r in
  match st_calls (one_call cfg empty_cache 7 rp) 0 with
  | PDone _ mo =>
      let exceeded := negb (exchange_in_time t x r) in
      let judge (o : outcome) :=
        if negb (timeout_ok t x r o (tt_in_bound c)) then PROPFAIL "timeout-not-enforced" else
        match first_fail (call_clauses cfg [] "" rp o) with
        | Some n => PROPFAIL n
        | None => if outcome_eqb o mo then OK else DIVERGE "outcome"
        end in
      match tt_impl c with
      | IPanic => PROPFAIL "panic"
      | INeverReturned => if exceeded then PROPFAIL "timeout-not-enforced" else DIVERGE "call-did-not-return"
      | INotRun => DIVERGE "call-did-not-run"
      | IOk id => if id =? b_id (r_body r) then judge (OkBody (r_body r)) else PROPFAIL "unknown-body-returned"
      | IErr => judge Err
      | ITooMany s => judge (TooMany s)
      end
  | _ => SKIP "model-call-not-finished"
  end.
