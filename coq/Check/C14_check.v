(* C14_check.v - one correspondence case of property C14: a controller
   configuration, the content of its parent cache, one watch event handed to the
   REAL handler (enqueueParentObject / updateParentObject / onChildAdd /
   onChildUpdate / onChildDelete) and the keys the handler gave to queue.Add. *)
From MC Require Export Model.Verdict Model.Events Model.EventSpec.
Local Open Scope list_scope.

Inductive flavour :=
| FComposite (c : ecfg)
| FDecorator (d : dcfg).

Record C14_case := mkC14 {
  c_fl : flavour;
  c_parents : list json;      (* parent informer cache(s) *)
  c_src : src;                (* which informer's handler was called *)
  c_ev : event;
  c_impl : list string        (* keys passed to queue.Add, in order *)
}.

Definition f_handle (fl : flavour) (parents : list json) (s : src) (ev : event) : list string :=
  match fl with FComposite c => handle c parents s ev | FDecorator d => d_handle d parents s ev end.
Definition f_affects (fl : flavour) (s : src) (ev : event) (p : json) : bool :=
  match fl with FComposite c => affects c s ev p | FDecorator d => d_affects d s ev p end.
Definition f_key (fl : flavour) (p : json) : string :=
  match fl with FComposite _ => key_of p | FDecorator _ => d_key_of p end.
Definition f_cares (fl : flavour) (p : json) : bool :=
  match fl with FComposite c => cares (e_cc c) p | FDecorator d => d_cares d p end.
Definition f_droppable (fl : flavour) (ev : event) : bool :=
  match fl with FComposite c => droppable_update c ev | FDecorator d => d_droppable_update d ev end.
(* what sync() does first with a key *)
Definition f_parses (fl : flavour) (k : string) : bool :=
  match fl with
  | FComposite _ => match split_meta_key k with Some _ => true | None => false end
  | FDecorator _ => match split_parent_queue_key k with Some _ => true | None => false end
  end.

Definition is_update (ev : event) : bool := match ev with EUpdate _ _ => true | _ => false end.
Definition is_parent (s : src) : bool := match s with SParent => true | SChild => false end.
Definition nonempty (l : list string) : bool := match l with [] => false | _ => true end.

Fixpoint count_str (k : string) (l : list string) : nat :=
  match l with [] => 0 | x :: l' => (if String.eqb k x then 1 else 0) + count_str k l' end.
Definition multiset_eqb (a b : list string) : bool :=
  forallb (fun k => Nat.eqb (count_str k a) (count_str k b)) (a ++ b).

(* the modelled domain: distinct cache keys, no "/" or ":" inside names *)
Definition in_domain (fl : flavour) (parents : list json) (s : src) (ev : event) : bool :=
  let objs := ev_obj ev :: parents in
  forallb slash_free objs &&
  match controller_of (ev_obj ev) with Some r => no_char slash (or_name r) | None => true end &&
  match fl with
  | FComposite _ => nodup_str (map key_of parents)
  | FDecorator _ =>
      nodup_str (map (fun p => (get_api_version p ++ "|" ++ get_kind p ++ "|" ++ key_of p)%string) parents) &&
      forallb (fun p => no_char colon (get_api_version p) && no_char colon (get_kind p) &&
                        no_char colon (get_ns p) && no_char colon (get_name p)) objs
  end.

Definition C14_check (c : C14_case) : verdict :=
  let fl := c_fl c in let ps := c_parents c in let s := c_src c in let ev := c_ev c in
  let q := c_impl c in
  if negb (in_domain fl ps s ev) then SKIP "names-outside-domain" else
  if negb (event_wf ev) then SKIP "tombstone-key-not-of-object" else
  let cands := candidates ps s ev in
  let unmatched := is_parent s && negb (f_cares fl (ev_obj ev)) in
  match first_fail
    [ ("unparsable-key-enqueued", forallb (f_parses fl) q);
      ("resync-enqueued", negb (negb (is_parent s) && is_resync ev && nonempty q));
      ("status-only-update-not-dropped", negb (is_parent s && f_droppable fl ev && nonempty q));
      ("relevant-update-dropped",
         negb (is_parent s && is_update ev && f_cares fl (ev_obj ev) && negb (f_droppable fl ev) && negb (nonempty q)));
      ("unmatched-parent-enqueued", negb (unmatched && negb (is_tombstone ev) && nonempty q));
      ("unmatched-parent-tombstone-enqueued", negb (unmatched && is_tombstone ev && nonempty q));
      ("unmatched-parent-enqueued",
         negb (existsb (fun p => negb (f_cares fl p) && mem_str (f_key fl p) q) (if is_parent s then [] else ps)));
      ("affected-parent-not-enqueued",
         negb (existsb (fun p => f_affects fl s ev p && negb (mem_str (f_key fl p) q)) cands));
      ("wrong-parent-woken",
         forallb (fun k => existsb (fun p => String.eqb (f_key fl p) k &&
                                             f_affects fl s ev p) cands) q);
      ("wrong-parent-woken",
         match controller_of (ev_obj ev), s with
         | Some _, SChild => Nat.leb (List.length q) 1
         | _, _ => true
         end) ] with
  | Some clause => PROPFAIL clause
  | None =>
      if multiset_eqb q (f_handle fl ps s ev) then OK else DIVERGE "queue-keys"
  end.

(* ---- related objects: customize.Manager's onRelated* handlers, called directly;
   the observation is the list of parents handed to enqueueParent, each
   identified as apiVersion:kind:ns:name ---- *)
Record C14r_case := mkC14r {
  r_cfg : rcfg;
  r_answers : answers;          (* the customize answers the manager can get: (uid, generation) -> rules *)
  r_parents : list json;        (* parent informer cache(s) *)
  r_ev : event;                 (* event on a related object *)
  r_impl : list string
}.

Definition C14r_check (c : C14r_case) : verdict :=
  let ps := r_parents c in let ev := r_ev c in let q := r_impl c in
  if negb (nodup_str (map d_key_of ps)) then SKIP "parents-not-distinct" else
  let aff := related_affects (r_cfg c) (r_answers c) ev in
  match first_fail
    [ ("resync-enqueued", negb (is_resync ev && nonempty q));
      ("affected-parent-not-enqueued", negb (existsb (fun p => aff p && negb (mem_str (d_key_of p) q)) ps));
      ("wrong-parent-woken", forallb (fun k => existsb (fun p => String.eqb (d_key_of p) k && aff p) ps) q) ] with
  | Some clause => PROPFAIL clause
  | None =>
      if multiset_eqb q (map d_key_of (on_related_event (r_cfg c) (r_answers c) ps ev)) then OK
      else DIVERGE "related-parents"
  end.
