(* C14_check.v - one correspondence case of property C14: a controller
   configuration, the content of its parent cache, one watch event handed to the
   REAL handler (enqueueParentObject / updateParentObject / onChildAdd /
   onChildUpdate / onChildDelete) and the keys the handler gave to queue.Add. *)
From MC Require Export Model.Verdict Model.Events Model.EventSpec.
Local Open Scope list_scope.

Inductive flavour :=
| FComposite (c : ecfg)
| FDecorator (d : dcfg).

Record C14_case := mkC14 {
  c_fl : flavour;
  c_parents : list json;      (* parent informer cache(s) *)
  c_src : src;                (* which informer's handler was called *)
  c_ev : event;
  c_impl : list string        (* keys passed to queue.Add, in order *)
}.

Definition f_handle (fl : flavour) (parents : list json) (s : src) (ev : event) : list string :=
  match fl with FComposite c => handle c parents s ev | FDecorator d => d_handle d parents s ev end.
Definition f_affects (fl : flavour) (s : src) (ev : event) (p : json) : bool :=
  match fl with FComposite c => affects c s ev p | FDecorator d => d_affects d s ev p end.
Definition f_key (fl : flavour) (p : json) : string :=
  match fl with FComposite _ => key_of p | FDecorator _ => d_key_of p end.
Definition f_cares (fl : flavour) (p : json) : bool :=
  match fl with FComposite c => cares (e_cc c) p | FDecorator d => d_cares d p end.
Definition f_droppable (fl : flavour) (ev : event) : bool :=
  match fl with FComposite c => droppable_update c ev | FDecorator d => d_droppable_update d ev end.
(* what sync() does first with a key *)
Definition f_parses (fl : flavour) (k : string) : bool :=
  match fl with
  | FComposite _ => match split_meta_key k with Some _ => true | None => false end
  | FDecorator _ => match split_parent_queue_key k with Some _ => true | None => false end
  end.

Definition is_update (ev : event) : bool := match ev with EUpdate _ _ => true | _ => false end.
Definition is_parent (s : src) : bool := match s with SParent => true | SChild => false end.
Definition nonempty (l : list string) : bool := match l with [] => false | _ => true end.

Fixpoint count_str (k : string) (l : list string) : nat :=
  match l with [] => 0 | x :: l' => (if String.eqb k x then 1 else 0) + count_str k l' end.
Definition multiset_eqb (a b : list string) : bool :=
  forallb (fun k => Nat.eqb (count_str k a) (count_str k b)) (a ++ b).

(* the modelled domain: distinct cache keys, no "/" or ":" inside names *)
Definition in_domain (fl : flavour) (parents : list json) (s : src) (ev : event) : bool :=
  let objs := ev_obj ev :: parents in
  forallb slash_free objs &&
  match controller_of (ev_obj ev) with Some r => no_char slash (or_name r) | None => true end &&
  match fl with
  | FComposite _ => nodup_str (map key_of parents)
  | FDecorator _ =>
      nodup_str (map (fun p => (get_api_version p ++ "|" ++ get_kind p ++ "|" ++ key_of p)%string) parents) &&
      forallb (fun p => no_char colon (get_api_version p) && no_char colon (get_kind p) &&
                        no_char colon (get_ns p) && no_char colon (get_name p)) objs
  end.

Definition C14_check (c : C14_case) : verdict :=
  let fl := c_fl c in let ps := c_parents c in let s := c_src c in let ev := c_ev c in
  let q := c_impl c in
  if negb (in_domain fl ps s ev) then SKIP "names-outside-domain" else
  if negb (event_wf ev) then SKIP "tombstone-key-not-of-object" else
  let cands := candidates ps s ev in
  let unmatched := is_parent s && negb (f_cares fl (ev_obj ev)) in
  match first_fail
    [ ("unparsable-key-enqueued", forallb (f_parses fl) q);
      ("resync-enqueued", negb (negb (is_parent s) && is_resync ev && nonempty q));
      ("status-only-update-not-dropped", negb (is_parent s && f_droppable fl ev && nonempty q));
      ("relevant-update-dropped",
         negb (is_parent s && is_update ev && f_cares fl (ev_obj ev) && negb (f_droppable fl ev) && negb (nonempty q)));
      ("unmatched-parent-enqueued", negb (unmatched && negb (is_tombstone ev) && nonempty q));
      ("unmatched-parent-tombstone-enqueued", negb (unmatched && is_tombstone ev && nonempty q));
      ("unmatched-parent-enqueued",
         negb (existsb (fun p => negb (f_cares fl p) && mem_str (f_key fl p) q) (if is_parent s then [] else ps)));
      ("affected-parent-not-enqueued",
         negb (existsb (fun p => f_affects fl s ev p && negb (mem_str (f_key fl p) q)) cands));
      ("wrong-parent-woken",
         forallb (fun k => existsb (fun p => String.eqb (f_key fl p) k &&
                                             f_affects fl s ev p) cands) q);
      ("wrong-parent-woken",
         match controller_of (ev_obj ev), s with
         | Some _, SChild => Nat.leb (List.length q) 1
         | _, _ => true
         end) ] with
  | Some clause => PROPFAIL clause
  | None =>
      if multiset_eqb q (f_handle fl ps s ev) then OK else DIVERGE "queue-keys"
  end.

(* ---- related objects: customize.Manager's onRelated* handlers, called directly;
   the observation is the list of parents handed to enqueueParent, each
   identified as apiVersion:kind:ns:name ---- *)
Record C14r_case := mkC14r {
  r_cfg : rcfg;
  r_answers : answers;          (* the customize answers the manager can get: (uid, generation) -> rules *)
  r_parents : list json;        (* parent informer cache(s) *)
  r_ev : event;                 (* event on a related object *)
  r_impl : list string
}.

Definition C14r_check (c : C14r_case) : verdict :=
  let ps := r_parents c in let ev := r_ev c in let q := r_impl c in
  if negb (nodup_str (map d_key_of ps)) then SKIP "parents-not-distinct" else
  let aff := related_affects (r_cfg c) (r_answers c) ev in
  match first_fail
    [ ("resync-enqueued", negb (is_resync ev && nonempty q));
      ("affected-parent-not-enqueued", negb (existsb (fun p => aff p && negb (mem_str (d_key_of p) q)) ps));
      ("wrong-parent-woken", forallb (fun k => existsb (fun p => String.eqb (d_key_of p) k && aff p) ps) q) ] with
  | Some clause => PROPFAIL clause
  | None =>
      if multiset_eqb q (map d_key_of (on_related_event (r_cfg c) (r_answers c) ps ev)) then OK
      else DIVERGE "related-parents"
  end.

(* ---- several controllers over ONE shared informer factory (leg C14m): the event
   travels through the simulator's watch and the real shared-informer fan-out;
   per controller instance: was it running, is it subscribed to the event's
   resource (as parent or child resource), its parent cache, the keys its queue
   received until the delivery barrier ---- *)
Record C14m_ctl := mkC14mCtl {
  m_cfg : ecfg;
  m_running : bool;
  m_src : option src;          (* None: the controller does not watch the event's resource *)
  m_parents : list json;
  m_keys : list string
}.

Record C14m_case := mkC14m { m_ev : event; m_ctls : list C14m_ctl }.

Definition C14m_ctl_check (ev : event) (x : C14m_ctl) : verdict :=
  let q := m_keys x in
  if negb (m_running x) then (if nonempty q then PROPFAIL "stopped-controller-woken" else OK) else
  match m_src x with
  | None => if nonempty q then PROPFAIL "wrong-parent-woken" else OK
  | Some s =>
      let fl := FComposite (m_cfg x) in
      let ps := m_parents x in
      if negb (in_domain fl ps s ev) then SKIP "names-outside-domain" else
      let cands := candidates ps s ev in
      if existsb (fun p => affects (m_cfg x) s ev p && negb (mem_str (key_of p) q)) cands
      then PROPFAIL "running-controller-missed-event" else
      if negb (forallb (fun k => existsb (fun p => String.eqb (key_of p) k && affects (m_cfg x) s ev p) cands) q)
      then PROPFAIL "wrong-parent-woken" else
      if multiset_eqb q (handle (m_cfg x) ps s ev) then OK else DIVERGE "queue-keys"
  end.

(* the first PROPFAIL over all controllers decides; else the first DIVERGE; else SKIP/OK *)
Definition verdict_rank (v : verdict) : nat :=
  match v with PROPFAIL _ => 3 | DIVERGE _ => 2 | SKIP _ => 1 | OK => 0 end.

Fixpoint C14m_first (ev : event) (l : list C14m_ctl) (best : verdict) : verdict :=
  match l with
  | [] => best
  | x :: l' =>
      let v := C14m_ctl_check ev x in
      C14m_first ev l' (if Nat.ltb (verdict_rank best) (verdict_rank v) then v else best)
  end.

Definition C14m_check (c : C14m_case) : verdict :=
  if negb (event_wf (m_ev c)) then SKIP "tombstone-key-not-of-object" else C14m_first (m_ev c) (m_ctls c) OK.
