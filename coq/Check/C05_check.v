From MC Require Export Model.Verdict Model.ApplyLaws Model.Obj.

Record C05_case := mkC05 {
  c_obs : json; c_last : json; c_des : json;
  c_impl : res json;      (* what apply.Merge returned *)
  c_impl2 : res json;     (* Merge(result, desired, desired) *)
  c_mutated : bool        (* some input differed after the call *)
}.

Definition res_eqb (a b : res json) : bool :=
  match a, b with
  | Ok x, Ok y => jeqb x y
  | Err, Err => true
  | Panic, Panic => true
  | _, _ => false
  end.

Definition C05_check (c : C05_case) : verdict :=
  let o := c_obs c in let l := c_last c in let d := c_des c in
  if negb (wf_json o && wf_json l && wf_json d) then SKIP "not-wf-json" else
  let m := Merge o l d in
  if c_mutated c then PROPFAIL "inputs-mutated" else
  match c_impl c with
  | Panic => PROPFAIL "panic"
  | Err => if clashb d o || negb (res_eqb m Err) then
             (if res_eqb m Err then OK else DIVERGE "merge-outcome") else OK
  | Ok r =>
      if clashb d o then PROPFAIL "type-clash-not-reported" else
      (* the laws are judged on the implementation's own result, before it is compared with the model's *)
      if negb (H1b d o l) then (if negb (res_eqb m (Ok r)) then DIVERGE "merge-result" else SKIP "outside-H") else
      let suffix := if negb (Hb d o l) then "-crosskey" else if negb (null_okb d o l) then "-null-over-listmap" else "" in
      match first_fail [("containment", containsb d r);
                        ("removal", removedb d o l r);
                        ("preservation", preservedb d o l r);
                        ("idempotence", res_eqb (c_impl2 c) (Ok r))] with
      | Some n => PROPFAIL (n ++ suffix)
      | None => if negb (res_eqb m (Ok r)) then
                  (* where the model reports a clash (one inside a list-map item, which clashb does not
                     descend into) and the implementation returned a value, the clash was dropped *)
                  (if res_eqb m Err then PROPFAIL "type-clash-not-reported" else DIVERGE "merge-result")
                else OK
      end
  end.

(* ---------- ApplyUpdate (merge + revert + last-applied bookkeeping) ---------- *)
From MC Require Import Generated.
Record C05u_case := mkC05u {
  u_obs : json; u_des : json;
  u_impl : res json;         (* what ApplyUpdate returned *)
  u_impl2 : res json;        (* ApplyUpdate(result, desired) *)
  u_des_after : json;        (* the desired object after the call (its own annotation is stripped) *)
  u_orig_mutated : bool
}.

Definition nested_eqb (a b : nested) : bool :=
  match a, b with
  | NFound x, NFound y => jeqb x y
  | NMissing, NMissing => true
  | NErr, NErr => true
  | _, _ => false
  end.

Definition C05u_check (c : C05u_case) : verdict :=
  let o := obj_map (u_obs c) in let d := obj_map (u_des c) in
  if negb (wf_json (u_obs c) && wf_json (u_des c)) then SKIP "not-wf-json" else
  if u_orig_mutated c then PROPFAIL "observed-object-mutated" else
  let m := apply_update o d in
  match u_impl c with
  | Panic => PROPFAIL "panic"
  | Err => match m with Err => OK | _ => DIVERGE "apply-update-outcome" end
  | Ok r =>
      let rm := obj_map r in
      match first_fail
        [("system-metadata-not-as-observed",
          forallb (fun f => nested_eqb (nested_get rm ["metadata"; f]) (nested_get o ["metadata"; f]))
                  ["uid"; "resourceVersion"; "generation"; "creationTimestamp"; "deletionTimestamp"]);
         ("status-not-as-observed", nested_eqb (nested_get rm ["status"]) (nested_get o ["status"]));
         ("last-applied-not-the-new-desired",
          match get_last_applied rm with
          | Ok la => jeqb la (JObj (nullify_last_applied d))
          | _ => false end);
         ("own-annotation-not-stripped-from-desired",
          jeqb (u_des_after c) (JObj (nullify_last_applied d)))] with
      | Some n => PROPFAIL n
      | None =>
          match m with
          | Ok mr => if negb (jeqb (JObj mr) r) then DIVERGE "apply-update-result" else
                     (* re-applying the same desired state changes nothing (where the merge laws' hypothesis holds) *)
                     let last := match get_last_applied o with Ok la => la | _ => JNull end in
                     if Hb (JObj (nullify_last_applied d)) (u_obs c) last && null_okb (JObj (nullify_last_applied d)) (u_obs c) last
                     then if res_eqb (u_impl2 c) (Ok r) then OK else PROPFAIL "apply-update-not-idempotent"
                     else OK
          | _ => DIVERGE "apply-update-outcome"
          end
      end
  end.
