From MC Require Export Model.Verdict Model.ApplyLaws.

Record C05_case := mkC05 {
  c_obs : json; c_last : json; c_des : json;
  c_impl : res json;      (* what apply.Merge returned *)
  c_impl2 : res json;     (* Merge(result, desired, desired) *)
  c_mutated : bool        (* some input differed after the call *)
}.

Definition res_eqb (a b : res json) : bool :=
  match a, b with
  | Ok x, Ok y => jeqb x y
  | Err, Err => true
  | Panic, Panic => true
  | _, _ => false
  end.

Definition C05_check (c : C05_case) : verdict :=
  let o := c_obs c in let l := c_last c in let d := c_des c in
  if negb (wf_json o && wf_json l && wf_json d) then SKIP "not-wf-json" else
  let m := Merge o l d in
  if c_mutated c then PROPFAIL "inputs-mutated" else
  match c_impl c with
  | Panic => PROPFAIL "panic"
  | Err => if clashb d o || negb (res_eqb m Err) then
             (if res_eqb m Err then OK else DIVERGE "merge-outcome") else OK
  | Ok r =>
      if clashb d o then PROPFAIL "type-clash-not-reported" else
      if negb (res_eqb m (Ok r)) then DIVERGE "merge-result" else
      if negb (H1b d o l) then SKIP "outside-H" else
      let suffix := if negb (Hb d o l) then "-crosskey" else if negb (null_okb d o l) then "-null-over-listmap" else "" in
      match first_fail [("containment", containsb d r);
                        ("removal", removedb d o l r);
                        ("preservation", preservedb d o l r);
                        ("idempotence", res_eqb (c_impl2 c) (Ok r))] with
      | Some n => PROPFAIL (n ++ suffix)
      | None => OK
      end
  end.
