(* C15_check.v — related objects and the customize hook: the property
   predicates on what the implementation did, then model vs implementation.
   One case = one world; per controller build a list of steps (real syncs and
   direct GetRelatedObjects calls) that share one customize.Manager. *)
From MC Require Import Generated.
From MC Require Export Check.Composite_check Model.CustomizePreds.
Local Open Scope list_scope.

Inductive probe_result := PROk (wire : json) | PRErr | PRPanic.

Record c15probe := mkProbe { pb_cache : cache; pb_parent : json; pb_events : list ev; pb_result : probe_result }.

Inductive c15step := StSync (r : round) | StProbe (p : c15probe).

(* a change of a related object while the parent's customize answer is NOT in the cache (the parent was never
   synced on this manager, or the entry is gone): the handler asks the hook itself *)
Record c15cold := mkCold {
  cold_parent : json;      (* the parent as the informer holds it *)
  cold_answer : json;      (* what the customize hook answers for it *)
  cold_obj : json;         (* the related object that changed *)
  cold_woken : bool }.     (* was the parent enqueued *)

(* a related-object UPDATE delivered to the real handlers: the object as the informer held it and as the
   event carried it; the handler must consider both states *)
Record c15upd := mkUpd {
  upd_kind : string;       (* what the generator aimed at: leave | enter | both | neither *)
  upd_parent : json;
  upd_answer : json;       (* what the customize hook answers for the parent *)
  upd_old : json;
  upd_new : json;
  upd_woken : bool }.

Record c15case := mkC15 {
  c15_cfg : ccfg;
  c15_builds : list (list c15step);
  c15_wakes : list (string * bool);     (* related object on the wire, changed -> was the parent enqueued *)
  c15_cold : list c15cold;
  c15_cold_calls : Z;                   (* customize calls for the cold parent during those probes; -1 = none ran *)
  c15_updates : list c15upd;
  c15_flags : list string }.

Definition pairs_of (evs : list ev) : list (call * answer) := map (fun e => (e_call e, e_ans e)) evs.

Definition step_events (s : c15step) : list ev :=
  match s with StSync r => r_events r | StProbe p => pb_events p end.

(* ---------- modelled domain: label keys and values that pass apimachinery's syntax check ---------- *)
Definition simple_char (a : ascii) : bool :=
  let n := Ascii.nat_of_ascii a in
  (Nat.leb 97 n && Nat.leb n 122) || (Nat.leb 48 n && Nat.leb n 57).

Fixpoint simple_str (s : string) : bool :=
  match s with EmptyString => true | String a s' => simple_char a && simple_str s' end.

Definition label_key_ok (s : string) : bool := negb (String.eqb s "") && simple_str s && Nat.leb (String.length s) 63.
Definition label_val_ok (s : string) : bool := simple_str s && Nat.leb (String.length s) 63.

Definition selector_in_domain (ls : option label_selector) : bool :=
  match ls with
  | None => true
  | Some s =>
      forallb (fun kv => label_key_ok (fst kv) && label_val_ok (snd kv)) (match_labels s) &&
      (* an unknown operator is refused before any syntax check; otherwise key and values are checked *)
      (negb (forallb req_valid (match_exprs s)) ||
       forallb (fun r => label_key_ok (rq_key r) && forallb label_val_ok (rq_vals r)) (match_exprs s))
  end.

Definition rules_in_domain (rules : list (option rule)) : bool :=
  forallb (fun r => selector_in_domain (r_selector r)) (some_rules rules).

Definition answers_in_domain (evs : list ev) : bool :=
  forallb (fun e => match e_call e, e_ans e with
                    | CHook HCustomize _, AHook body =>
                        match decode_customize body with Some rules => rules_in_domain rules | None => true end
                    | _, _ => true end) evs.

(* ---------- property predicates on one step ---------- *)
Fixpoint first_json (f : ev -> option json) (l : list ev) : option json :=
  match l with [] => None | e :: l' => match f e with Some j => Some j | None => first_json f l' end end.

Definition customize_parent (evs : list ev) : option json :=
  first_json (fun e => match e_call e with
                       | CHook HCustomize (JObj m) => alookup "parent" m
                       | _ => None end) evs.

(* a customize call for key that did not yield rules (error status, transport error, unreadable body) *)
Definition failed_call (key : ckey) (ca : call * answer) : bool :=
  match cust_key_of (fst ca) with
  | Some k' => ckey_eqb k' key && negb (decodable (snd ca))
  | None => false
  end.

Fixpoint after_first_failure (key : ckey) (l : list (call * answer)) : option (list (call * answer)) :=
  match l with
  | [] => None
  | ca :: l' => if failed_call key ca then Some l' else after_first_failure key l'
  end.

(* all: oldest first.  After the first failed call for key the hook was asked again for key *)
Definition asked_again_after_failure (key : ckey) (all : list (call * answer)) : bool :=
  match after_first_failure key all with
  | None => true
  | Some rest => existsb (fun ca => match cust_key_of (fst ca) with
                                    | Some k' => ckey_eqb k' key | None => false end) rest
  end.

(* a sync / finalize / probe view: the parent sent and the related map on the wire *)
Definition view_fail (c : ccfg) (k : cache) (all : list (call * answer)) (body : json) : option string :=
  let parent := jget "parent" (obj_map body) in
  match rules_in_effect all (parent_key parent) with
  | None => if has_customize c
            then if existsb (failed_call (parent_key parent)) all
                 then Some "customize-not-asked-again-after-failure"
                 else Some "related-sent-without-a-customize-answer"
            else None
  | Some rules =>
      if negb (C15_related_exact c k rules body) then Some "related-differs-from-rule-selection" else
      if negb (C15_selected_implies_trigger c rules body) then Some "selected-object-does-not-trigger" else None
  end.

Definition sync_fail (c : ccfg) (seen : list (call * answer)) (r : round) : option string :=
  let evs := r_events r in
  let all := seen ++ pairs_of evs in
  match r_result r with
  | SPanic => Some "panic"
  | _ =>
      orelse
        (first_some (fun e => match e_call e with
                              | CHook _ body => view_fail c (r_cache r) all body
                              | _ => None end) (hook_events evs))
        (match (match customize_parent evs with Some p => Some p | None => k_parent (r_cache r) end) with
         | None => None
         | Some parent =>
             match rules_in_effect all (parent_key parent) with
             | None => None
             | Some rules =>
                 if C15_invalid_rule_is_error c parent rules evs (r_result r) then None
                 else Some "invalid-rule-is-not-an-error"
             end
         end)
  end.

Definition probe_fail (c : ccfg) (seen : list (call * answer)) (p : c15probe) : option string :=
  let all := seen ++ pairs_of (pb_events p) in
  match pb_result p with
  | PRPanic => Some "panic"
  | PRErr => None
  | PROk wire =>
      let body := JObj [("parent", pb_parent p); ("related", wire)] in
      orelse (view_fail c (pb_cache p) all body)
             (match rules_in_effect all (parent_key (pb_parent p)) with
              | Some rules => if existsb (entry_bad (p_namespaced c) (pb_parent p)) rules
                              then Some "invalid-rule-is-not-an-error" else None
              | None => None end)
  end.

Fixpoint build_fail (c : ccfg) (seen : list (call * answer)) (steps : list c15step) (i : nat) : option string :=
  match steps with
  | [] => if C15_customize_once (rev seen) then None else Some "customize-asked-again-while-cached"
  | s :: rest =>
      match (match s with StSync r => sync_fail c seen r | StProbe p => probe_fail c seen p end) with
      | Some w => Some (w ++ "@step" ++ string_of_Z (Z.of_nat i))%string
      | None => build_fail c (seen ++ pairs_of (step_events s)) rest (S i)
      end
  end.

Fixpoint builds_fail (c : ccfg) (bs : list (list c15step)) (i : nat) : option string :=
  match bs with
  | [] => None
  | b :: rest => match build_fail c [] b 0 with
                 | Some w => Some (w ++ "@build" ++ string_of_Z (Z.of_nat i))%string
                 | None => builds_fail c rest (S i) end
  end.

(* ---------- model vs implementation ---------- *)
Definition hook_calls_of_hist (hist : list (call * answer)) : list call :=
  filter is_hook_call (filter (fun c => negb (is_note c)) (map fst (rev hist))).

Definition hook_calls_agree (mcalls icalls : list call) : option string :=
  if negb (Nat.eqb (List.length mcalls) (List.length icalls)) then Some "hook-call-count" else
  if forallb (fun c => calls_perm_eqb (calls_for (call_key c) mcalls) (calls_for (call_key c) icalls)) icalls
  then None else Some "hook-call-content".

Definition probe_agrees (pns : string) (m : rel_result) (i : probe_result) : bool :=
  match m, i with
  | RelOk um, PROk wire => jeqb (convert pns um) wire
  | RelErr, PRErr | Rel429 _, PRErr => true
  | RelPanic, PRPanic => true
  | _, _ => false
  end.

Fixpoint build_diverges (c : ccfg) (cc : ccache) (steps : list c15step) (i : nat) : option string :=
  match steps with
  | [] => None
  | s :: rest =>
      let at_ := fun (w : string) => Some (w ++ "@step" ++ string_of_Z (Z.of_nat i))%string in
      match s with
      | StSync r =>
          let '(hist, (res, cc')) := run (sync_cc c cc (r_cache r)) (env_of_log (r_events r)) [] in
          if negb (sync_result_eqb res (r_result r)) then at_ "result" else
          match hook_calls_agree (hook_calls_of_hist hist) (filter is_hook_call (map e_call (r_events r))) with
          | Some w => at_ w
          | None => build_diverges c cc' rest (S i)
          end
      | StProbe p =>
          let '(hist, (res, cc')) := run (related_phase_c c cc (pb_cache p) (pb_parent p)) (env_of_log (pb_events p)) [] in
          if negb (probe_agrees (get_ns (pb_parent p)) res (pb_result p)) then at_ "related-map" else
          match hook_calls_agree (hook_calls_of_hist hist) (filter is_hook_call (map e_call (pb_events p))) with
          | Some w => at_ w
          | None => build_diverges c cc' rest (S i)
          end
      end
  end.

Fixpoint builds_diverge (c : ccfg) (bs : list (list c15step)) (i : nat) : option string :=
  match bs with
  | [] => None
  | b :: rest => match build_diverges c [] b 0 with
                 | Some w => Some (w ++ "@build" ++ string_of_Z (Z.of_nat i))%string
                 | None => builds_diverge c rest (S i) end
  end.

(* the object is in the parent's related map on the wire: all rules usable, one of them selects it *)
Definition in_related_map_spec (c : ccfg) (parent : json) (rules : list (option rule)) (o : json) : bool :=
  negb (existsb (entry_bad (p_namespaced c) parent) rules) &&
  negb (existsb (rule_unusable c) (some_rules rules)) &&
  scope_ok c parent &&
  wire_visible (get_ns parent) o &&
  existsb (fun r => match lookup_res c (r_api_version r) (r_resource r) with
                    | Some kc => String.eqb (get_api_version o) (ch_api_version kc) &&
                                 String.eqb (get_kind o) (ch_kind kc) &&
                                 spec_selects (p_namespaced c) parent r o
                    | None => false end) (some_rules rules).

(* property: whatever is in the related map wakes the parent, cached answer or not *)
Definition cold_fail (c : ccfg) (p : c15cold) : option string :=
  match decode_customize (cold_answer p) with
  | Some rules =>
      if in_related_map_spec c (cold_parent p) rules (cold_obj p) && negb (cold_woken p)
      then Some "related-object-change-does-not-wake-parent:answer-not-cached" else None
  | None => None
  end.

(* model: findRelatedParents asks the hook on a cache miss and then matches *)
Definition cold_diverges (c : ccfg) (p : c15cold) : bool :=
  negb (Bool.eqb (cold_woken p)
                 (match decode_customize (cold_answer p) with
                  | Some rules => parent_woken_by c (cold_parent p) rules [cold_obj p]
                  | None => false end)).

(* property: an object that was in the related map, or is in it now, wakes the parent when it is updated *)
Definition upd_fail (c : ccfg) (u : c15upd) : option string :=
  match decode_customize (upd_answer u) with
  | Some rules =>
      let was := in_related_map_spec c (upd_parent u) rules (upd_old u) in
      let is_ := in_related_map_spec c (upd_parent u) rules (upd_new u) in
      if (was || is_) && negb (upd_woken u)
      then Some ("related-object-change-does-not-wake-parent:" ++
                 (if String.prefix "delete" (upd_kind u) then upd_kind u      (* delete | delete-tombstone *)
                  else if was && is_ then "update-stays-selected"
                  else if was then "update-leaves-selection" else "update-enters-selection"))%string
      else None
  | None => None
  end.

Definition upd_diverges (c : ccfg) (u : c15upd) : bool :=
  negb (Bool.eqb (upd_woken u)
                 (match decode_customize (upd_answer u) with
                  | Some rules => woken_by_update c (upd_parent u) rules (upd_old u) (upd_new u)
                  | None => false end)).

Definition C15_check (c : c15case) : verdict :=
  if negb (forallb (fun b => forallb (fun s => answers_in_domain (step_events s)) b) (c15_builds c))
  then SKIP "label syntax outside the modelled domain" else
  match builds_fail (c15_cfg c) (c15_builds c) 0 with
  | Some w => PROPFAIL w
  | None =>
      match find (fun w => negb (snd w)) (c15_wakes c) with
      | Some w => if String.eqb (fst w) "informer-handler-panicked" then PROPFAIL "panic"
                  else PROPFAIL ("related-object-change-does-not-wake-parent:" ++ fst w)%string
      | None =>
          match orelse (first_some (cold_fail (c15_cfg c)) (c15_cold c))
                       (first_some (upd_fail (c15_cfg c)) (c15_updates c)) with
          | Some w => PROPFAIL w
          | None =>
          if existsb (upd_diverges (c15_cfg c)) (c15_updates c) then DIVERGE "update-event-wake" else
          if match c15_cold c with [] => false | _ => Z.ltb 1 (c15_cold_calls c) end
          then PROPFAIL "customize-asked-again-while-cached" else
          if existsb (cold_diverges (c15_cfg c)) (c15_cold c) then DIVERGE "cold-cache-wake" else
          if match c15_cold c with [] => false | _ => negb (Z.eqb (c15_cold_calls c) 1) end
          then DIVERGE "cold-cache-customize-call-count" else
          if negb (forallb (fun b => forallb (fun s => forallb (fun e => saneb (e_call e) (e_ans e)) (step_events s)) b)
                           (c15_builds c))
          then DIVERGE "environment-assumption-sane" else
          match builds_diverge (c15_cfg c) (c15_builds c) 0 with
          | Some w => DIVERGE w
          | None => OK
          end
          end
      end
  end.

(* ================= C15m: matchesRelatedRule / determineSelectionType called directly ================= *)
Inductive m_verdict := MTrue | MFalse | MErr | MPanic.

Definition m_verdict_eqb (a b : m_verdict) : bool :=
  match a, b with MTrue, MTrue | MFalse, MFalse | MErr, MErr | MPanic, MPanic => true | _, _ => false end.

Record c15m_case := mkC15m {
  m_pn : bool;             (* parent resource is namespaced *)
  m_parent : json;
  m_obj : json;
  m_rule : json;           (* the rule as the hook would send it *)
  m_kind : string;         (* kind of the rule's resource *)
  m_decoded : bool;        (* the Go decoder accepted the rule *)
  m_sel : string;          (* determineSelectionType: Labels | NamesNs | Invalid | panic *)
  m_match : m_verdict      (* matchesRelatedRule *)
}.

Definition sel_name (t : sel_type) : string :=
  match t with SelLabels => "Labels" | SelNamesNs => "NamesNs" | SelInvalid => "Invalid" end.

Definition model_match (c : c15m_case) (r : option rule) : m_verdict :=
  match matches_related_rule (m_pn c) (m_parent c) (m_obj c) r (m_kind c) with
  | Ok true => MTrue | Ok false => MFalse | Err => MErr | Panic => MPanic end.

Definition C15m_check (c : c15m_case) : verdict :=
  match dec_rule (m_rule c) with
  | None => if m_decoded c then DIVERGE "rule-decoding" else OK
  | Some r =>
      if negb (m_decoded c) then DIVERGE "rule-decoding" else
      if negb (rules_in_domain [r]) then SKIP "label syntax outside the modelled domain" else
      (* a nil rule: GetRelatedObjects refuses it and findRelatedParents skips it, so neither function is
         reached with nil any more; called directly both still dereference it, as the model says *)
      if match r with None => true | Some _ => false end then
        (if m_verdict_eqb (m_match c) MPanic && String.eqb (m_sel c) "panic"
         then SKIP "nil rule: precondition of matchesRelatedRule violated (its callers filter nil)"
         else DIVERGE "nil-rule") else
      (* property on the implementation first *)
      match m_match c with
      | MPanic => PROPFAIL "panic"
      | im =>
          if match r with
             | Some rr =>
                 String.eqb (get_api_version (m_obj c)) (r_api_version rr) && String.eqb (get_kind (m_obj c)) (m_kind c) &&
                 Bool.eqb (m_pn c) (negb (String.eqb (get_ns (m_parent c)) "")) &&
                 negb (rule_bad (m_pn c) (m_parent c) rr) &&
                 spec_selects (m_pn c) (m_parent c) rr (m_obj c) && wire_visible (get_ns (m_parent c)) (m_obj c) &&
                 negb (m_verdict_eqb im MTrue)
             | None => false end
          then PROPFAIL "selected-object-does-not-trigger" else
          if negb (String.eqb (m_sel c) (match r with Some rr => sel_name (selection_type rr) | None => "panic" end))
          then DIVERGE "selection-type" else
          if negb (m_verdict_eqb im (model_match c r)) then DIVERGE "matches-related-rule" else OK
      end
  end.

(* ================= C13c: malformed customize answers (a leg of property C13) =================
   One controller instance; the parent under test gets the malformed answer on every use:
   sync-first, sync-retry (same uid and generation), related-object events through the real informer
   handlers, sync-bumped / sync-bumped-retry after a generation bump.  A second parent ("anchor")
   with a valid rule keeps the related informer alive and must be woken by every pod event. *)
Record c13c_use := mkUse {
  u_kind : string;
  u_panic : bool;            (* the worker (sync) or the informer handler goroutine (event) panicked *)
  u_woken : bool;            (* events: the anchor parent was enqueued *)
  u_round : option round }.

Record c13c_case := mkC13c { c13c_cfg : ccfg; c13c_uses : list c13c_use; c13c_flags : list string }.

Definition is_p1_sync (u : c13c_use) : bool :=
  mem_str (u_kind u) ["sync-first"; "sync-retry"; "sync-bumped"; "sync-bumped-retry"].

Definition p1_rounds (c : c13c_case) : list round :=
  flat_map (fun u => if is_p1_sync u then match u_round u with Some r => [r] | None => [] end else []) (c13c_uses c).

Definition round_of (c : c13c_case) (kind : string) : option round :=
  match find (fun u => String.eqb (u_kind u) kind) (c13c_uses c) with
  | Some u => u_round u | None => None end.

(* the answer the hook gives the parent under test (the same on every call) *)
Definition the_answer (c : c13c_case) : option answer :=
  match flat_map (fun r => flat_map (fun e => match e_call e with
                                             | CHook HCustomize _ => [e_ans e] | _ => [] end) (r_events r))
                 (p1_rounds c) with
  | a :: _ => Some a | [] => None end.

(* the model's reading: does this answer yield a related map for this parent? *)
Definition answer_rejected (c : ccfg) (k : cache) (a : answer) : bool :=
  match a, k_parent k with
  | AHook body, Some parent =>
      match decode_customize body with
      | Some rules => negb (is_ok (get_related_objects c k parent rules))
      | None => true end
  | _, _ => true
  end.

(* the controller's own verdict: the sync never reached the sync / finalize hook *)
Definition round_rejected (r : round) : bool :=
  match hook_events (r_events r) with [] => true | _ => false end.

Definition round_writes (r : round) : bool :=
  existsb (fun e => match is_api e with Some q => is_write q | None => false end) (r_events r).

Definition round_panicked (r : round) : bool := sync_result_eqb (r_result r) SPanic.

Definition cached_pair_fail (c : c13c_case) (first second : string) : bool :=
  match round_of c first, round_of c second with
  | Some r1, Some r2 => round_rejected r1 && negb (round_rejected r2)
  | _, _ => false
  end.

Definition C13c_check (c : c13c_case) : verdict :=
  let cfg := c13c_cfg c in
  if existsb (fun u => u_panic u || match u_round u with Some r => round_panicked r | None => false end) (c13c_uses c)
  then PROPFAIL "panic" else
  if negb (forallb (fun r => answers_in_domain (r_events r)) (p1_rounds c))
  then SKIP "label syntax outside the modelled domain" else
  if existsb (fun r => (round_rejected r ||
                        match the_answer c with Some a => answer_rejected cfg (r_cache r) a | None => false end) &&
                       round_writes r) (p1_rounds c)
  then PROPFAIL "write-after-rejected-customize-answer" else
  if cached_pair_fail c "sync-first" "sync-retry" || cached_pair_fail c "sync-bumped" "sync-bumped-retry"
  then PROPFAIL "rejected-answer-accepted-from-cache" else
  if negb (forallb (fun r => forallb (fun e => saneb (e_call e) (e_ans e)) (r_events r)) (p1_rounds c))
  then DIVERGE "environment-assumption-sane" else
  match build_diverges cfg [] (map StSync (p1_rounds c)) 0 with
  | Some w => DIVERGE w
  | None =>
      (* the anchor's rule selects every pod: each pod event wakes it, whatever the other parent's answer *)
      (* observed with a time-out: a single miss is tolerated as scheduling noise, a repeated one is not *)
      if Nat.leb 2 (List.length (filter (fun u => negb (is_p1_sync u) &&
                                                  match u_round u with None => negb (u_woken u) | Some _ => false end)
                                        (c13c_uses c)))
      then DIVERGE "anchor-parent-not-woken" else OK
  end.

(* ================= C12c: customize hook faults leave no trace (a leg of property C12) =================
   The hook fails a few times and then answers with c12c_good; one controller instance keeps syncing the
   same parent generation. *)
Record c12c_case := mkC12c { c12c_base : c15case; c12c_good : json }.

Definition c12c_round_fail (c : ccfg) (good : list (option rule)) (seen : list (call * answer)) (r : round) : option string :=
  let all := seen ++ pairs_of (r_events r) in
  first_some (fun e => match e_call e with
                       | CHook _ body =>
                           let key := parent_key (jget "parent" (obj_map body)) in
                           if negb (asked_again_after_failure key all)
                           then Some "customize-not-asked-again-after-failure" else
                           if negb (C15_related_exact c (r_cache r) good body)
                           then Some "related-map-wrong-after-customize-failure" else None
                       | _ => None end) (hook_events (r_events r)).

Fixpoint c12c_build_fail (c : ccfg) (good : list (option rule)) (seen : list (call * answer))
         (steps : list c15step) (i : nat) : option string :=
  match steps with
  | [] => None
  | s :: rest =>
      match (match s with StSync r => c12c_round_fail c good seen r | StProbe _ => None end) with
      | Some w => Some (w ++ "@step" ++ string_of_Z (Z.of_nat i))%string
      | None => c12c_build_fail c good (seen ++ pairs_of (step_events s)) rest (S i)
      end
  end.

Definition C12c_check (c : c12c_case) : verdict :=
  let b := c12c_base c in
  match decode_customize (c12c_good c) with
  | None => SKIP "the good answer is not decodable"
  | Some good =>
      if negb (rules_in_domain good) then SKIP "label syntax outside the modelled domain" else
      match first_some (fun steps => c12c_build_fail (c15_cfg b) good [] steps 0) (c15_builds b) with
      | Some w => PROPFAIL w
      | None => C15_check b
      end
  end.

(* ================= C17c: the shared related informers' objects are never mutated (a leg of property C17) =================
   The C15 scenarios, related objects seeded as a real server returns them (managedFields, annotations, status).
   c17c_mutated: per step "" or which cached object (related <Kind> | parent), taken by pointer before the step,
   differed from its deep copy after it. *)
Record c17c_case := mkC17c { c17c_base : c15case; c17c_mutated : list string }.

Definition c17c_rounds (b : c15case) : list round :=
  flat_map (fun steps => flat_map (fun s => match s with StSync r => [r] | StProbe _ => [] end) steps) (c15_builds b).

Definition C17c_check (c : c17c_case) : verdict :=
  let b := c17c_base c in
  match find (fun s => negb (String.eqb s "")) (c17c_mutated c) with
  | Some s => PROPFAIL ("shared-cache-mutated-" ++ s)%string
  | None =>
      (* the parent / child / revision caches, by the composite world's own oracle *)
      match find (fun r => negb (String.eqb (r_cache_mutated r) "")) (c17c_rounds b) with
      | Some r => PROPFAIL ("shared-cache-mutated-" ++ r_cache_mutated r)%string
      | None =>
          (* what the hooks are sent is what the caches hold: C15's exactness clause compares whole objects
             (managedFields, annotations, status included) *)
          match C15_check b with
          | PROPFAIL w =>
              if String.prefix "related-differs-from-rule-selection" w
              then PROPFAIL ("hook-sent-differs-from-cache:" ++ w)%string else PROPFAIL w
          | v => v
          end
      end
  end.
